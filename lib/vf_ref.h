/* vf_ref.h - reference models of the Binson format, written from BINSON-SPEC-1
 * and include/binson_defines.h only. Shares no code with /repo.
 *
 *   vf_doc            a document: bytes + decoded tree with spans
 *   vf_b_*            reference ENCODER (builder): tree -> canonical bytes
 *   vf_ref_decode     reference RECOGNISER + DECODER: bytes -> verdict (+ tree)
 *   vf_ref_render     reference RENDERER for the text of to_string / print
 */
#ifndef VF_REF_H
#define VF_REF_H
#include "vf_util.h"

enum { VK_NONE = 0, VK_OBJ, VK_ARR, VK_BOOL, VK_INT, VK_DBL, VK_STR, VK_BYT };
/* verdicts of the recogniser */
enum { VR_OK = 0, VR_RANGE, VR_FORMAT, VR_MAXOBJ, VR_MAXARR };
static const char *const vf_vr_name[] = { "OK", "RANGE", "FORMAT", "MAX_DEPTH_OBJECT", "MAX_DEPTH_ARRAY" };

#ifndef VF_MAXNODES
#define VF_MAXNODES 600      /* drivers that need wide containers define a larger capacity before including this file */
#endif

typedef struct {
    uint8_t  kind;
    int32_t  parent;        /* -1 for the root */
    int32_t  nstart;        /* offset of the name token (== start when unnamed) */
    int32_t  name_off;      /* payload of the name, -1 when unnamed */
    int32_t  name_len;
    int32_t  start, end;    /* value token span [start, end) */
    int32_t  pay_off;       /* payload span of STR/BYT */
    int32_t  pay_len;
    int64_t  ival;
    uint64_t dbits;
    bool     bval;
    int32_t  nch;
    int32_t  first, last, next;   /* children as a linked list, -1 = none */
    int32_t  idx;                 /* position among the siblings */
} vf_node;

typedef struct {
    vf_node  n[VF_MAXNODES];
    int      nn;
    uint8_t *bytes;
    size_t   len, cap;
    int      root_kind;     /* VK_OBJ or VK_ARR */
    /* builder state */
    int      open[VF_MAXNODES];
    int      nopen;
    int32_t  pend_nstart, pend_name_off, pend_name_len;
} vf_doc;

static inline int vf_child(const vf_doc *d, int parent, int i)
{
    int c = d->n[parent].first;
    while (c >= 0 && i-- > 0) c = d->n[c].next;
    return c;
}

/* ---------------------------------------------------------------- encoder */
static inline void vf_put(vf_doc *d, const void *p, size_t n)
{
    if (d->len + n > d->cap) {
        d->cap = (d->len + n) * 2 + 64;
        d->bytes = (uint8_t *) vf_xrealloc(d->bytes, d->cap);
    }
    if (n) memcpy(d->bytes + d->len, p, n);
    d->len += n;
}
static inline void vf_put1(vf_doc *d, uint8_t b) { vf_put(d, &b, 1); }
/* canonical (shortest) two's complement little endian integer: base type byte + width code */
static inline void vf_put_int(vf_doc *d, uint8_t base, int64_t v)
{
    int w;
    if (v >= -128 && v <= 127) w = 0;
    else if (v >= -32768 && v <= 32767) w = 1;
    else if (v >= -2147483648LL && v <= 2147483647LL) w = 2;
    else w = 3;
    vf_put1(d, (uint8_t) (base + w));
    uint64_t u = (uint64_t) v;
    for (int i = 0; i < (1 << w); i++) { vf_put1(d, (uint8_t) (u & 0xff)); u >>= 8; }
}
static inline void vf_b_reset(vf_doc *d)
{
    d->nn = 0; d->len = 0; d->nopen = 0; d->pend_name_off = -1; d->pend_name_len = 0; d->pend_nstart = -1;
}
static inline int vf_b_newnode(vf_doc *d, int kind)
{
    if (d->nn >= VF_MAXNODES) vf_die("document has too many nodes");
    int id = d->nn++;
    vf_node *x = &d->n[id];
    memset(x, 0, sizeof *x);
    x->kind = (uint8_t) kind;
    x->first = x->last = x->next = -1;
    x->pay_off = -1;
    x->start = (int32_t) d->len;
    if (d->nopen == 0) {
        x->parent = -1; x->name_off = -1; x->nstart = x->start;
    } else {
        int p = d->open[d->nopen - 1];
        x->parent = (int32_t) p;
        x->idx = d->n[p].nch;
        if (d->n[p].last >= 0) d->n[d->n[p].last].next = (int32_t) id; else d->n[p].first = (int32_t) id;
        d->n[p].last = (int32_t) id;
        d->n[p].nch++;
        if (d->n[p].kind == VK_OBJ) {
            if (d->pend_name_off < 0) vf_die("builder: value without a name inside an object");
            x->name_off = d->pend_name_off; x->name_len = d->pend_name_len; x->nstart = d->pend_nstart;
            d->pend_name_off = -1;
        } else {
            x->name_off = -1; x->nstart = x->start;
        }
    }
    return id;
}
static inline void vf_b_name(vf_doc *d, const void *name, size_t len)
{
    d->pend_nstart = (int32_t) d->len;
    vf_put_int(d, 0x14, (int64_t) len);
    d->pend_name_off = (int32_t) d->len;
    d->pend_name_len = (int32_t) len;
    vf_put(d, name, len);
}
static inline int vf_b_open(vf_doc *d, int kind)
{
    int id = vf_b_newnode(d, kind);
    if (id == 0) d->root_kind = kind;
    vf_put1(d, kind == VK_OBJ ? 0x40 : 0x42);
    d->open[d->nopen++] = id;
    return id;
}
static inline void vf_b_close(vf_doc *d)
{
    int id = d->open[--d->nopen];
    vf_put1(d, d->n[id].kind == VK_OBJ ? 0x41 : 0x43);
    d->n[id].end = (int32_t) d->len;
}
static inline int vf_b_bool(vf_doc *d, bool v)
{
    int id = vf_b_newnode(d, VK_BOOL);
    d->n[id].bval = v;
    vf_put1(d, v ? 0x44 : 0x45);
    d->n[id].end = (int32_t) d->len;
    return id;
}
static inline int vf_b_int(vf_doc *d, int64_t v)
{
    int id = vf_b_newnode(d, VK_INT);
    d->n[id].ival = v;
    vf_put_int(d, 0x10, v);
    d->n[id].end = (int32_t) d->len;
    return id;
}
static inline int vf_b_dbits(vf_doc *d, uint64_t bits)
{
    int id = vf_b_newnode(d, VK_DBL);
    d->n[id].dbits = bits;
    vf_put1(d, 0x46);
    for (int i = 0; i < 8; i++) vf_put1(d, (uint8_t) (bits >> (8 * i)));
    d->n[id].end = (int32_t) d->len;
    return id;
}
static inline int vf_b_blob(vf_doc *d, int kind, const void *p, size_t len)
{
    int id = vf_b_newnode(d, kind);
    vf_put_int(d, kind == VK_STR ? 0x14 : 0x18, (int64_t) len);
    d->n[id].pay_off = (int32_t) d->len;
    d->n[id].pay_len = (int32_t) len;
    vf_put(d, p, len);
    d->n[id].end = (int32_t) d->len;
    return id;
}

/* ------------------------------------------------- recogniser + decoder */
typedef struct {
    const uint8_t *b;
    size_t n, pos;
    int maxdepth;       /* object nesting limit d */
    int maxarr;         /* array nesting limit (255) */
    int err;
    vf_doc *out;        /* may be NULL: recognise only */
} vf_rctx;

static inline int vf_r_need(vf_rctx *c, size_t k)
{
    if (c->n - c->pos < k) { c->err = VR_RANGE; return 0; }
    return 1;
}
/* reads a w-byte integer which must be in shortest form */
static inline int vf_r_int(vf_rctx *c, int w, int64_t *out)
{
    if (!vf_r_need(c, (size_t) w)) return 0;
    uint64_t u = 0;
    for (int i = w - 1; i >= 0; i--) u = (u << 8) | c->b[c->pos + (size_t) i];
    if (w < 8) {
        uint64_t sign = 1ULL << (8 * w - 1);
        if (u & sign) u |= ~((sign << 1) - 1);
    }
    int64_t v = (int64_t) u;
    c->pos += (size_t) w;
    int ok = (w == 1) || (w == 2 && (v < -128 || v > 127)) || (w == 4 && (v < -32768 || v > 32767)) ||
             (w == 8 && (v < -2147483648LL || v > 2147483647LL));
    if (!ok) { c->err = VR_FORMAT; return 0; }
    *out = v;
    return 1;
}
static inline int vf_r_len(vf_rctx *c, int w, size_t *len)
{
    int64_t v;
    if (!vf_r_int(c, w, &v)) return 0;
    if (v < 0 || v > 2147483647LL) { c->err = VR_FORMAT; return 0; }
    if (!vf_r_need(c, (size_t) v)) return 0;
    *len = (size_t) v;
    return 1;
}
static int vf_r_value(vf_rctx *c, int od, int ad, int parent, int32_t nstart, int32_t name_off, int32_t name_len);

static inline int vf_r_mknode(vf_rctx *c, int kind, int parent, int32_t nstart, int32_t name_off, int32_t name_len)
{
    vf_doc *d = c->out;
    if (!d) return -1;
    if (d->nn >= VF_MAXNODES) vf_die("ref_decode: too many nodes");
    int id = d->nn++;
    vf_node *x = &d->n[id];
    memset(x, 0, sizeof *x);
    x->kind = (uint8_t) kind;
    x->parent = (int32_t) parent;
    x->first = x->last = x->next = -1;
    x->pay_off = -1;
    x->start = (int32_t) c->pos;
    x->name_off = name_off; x->name_len = name_len;
    x->nstart = name_off >= 0 ? nstart : x->start;
    if (parent >= 0) {
        x->idx = d->n[parent].nch;
        if (d->n[parent].last >= 0) d->n[d->n[parent].last].next = (int32_t) id; else d->n[parent].first = (int32_t) id;
        d->n[parent].last = (int32_t) id;
        d->n[parent].nch++;
    }
    return id;
}
static int vf_r_object(vf_rctx *c, int od, int id)
{
    /* positioned on 0x40; od = object depth this object would have */
    if (od > c->maxdepth) { c->err = VR_MAXOBJ; return 0; }
    c->pos++;
    const uint8_t *pn = NULL;
    size_t pl = 0;
    for (;;) {
        if (!vf_r_need(c, 1)) return 0;
        uint8_t t = c->b[c->pos];
        if (t == 0x41) { c->pos++; return 1; }
        if (t < 0x14 || t > 0x16) {
            /* not a name. A truncated or malformed value token here is still an
             * error; which code the library gives is not part of any property. */
            c->err = VR_FORMAT;
            return 0;
        }
        int32_t nstart = (int32_t) c->pos;
        c->pos++;
        size_t l;
        if (!vf_r_len(c, 1 << (t & 3), &l)) return 0;
        const uint8_t *nm = c->b + c->pos;
        int32_t noff = (int32_t) c->pos;
        c->pos += l;
        if (pn) {
            size_t m = pl < l ? pl : l;
            int r = memcmp(pn, nm, m);
            if (r > 0 || (r == 0 && pl >= l)) { c->err = VR_FORMAT; return 0; }
        }
        pn = nm; pl = l;
        if (!vf_r_value(c, od, 0, id, nstart, noff, (int32_t) l)) return 0;
    }
}
static int vf_r_array(vf_rctx *c, int od, int ad, int id)
{
    if (ad > c->maxarr) { c->err = VR_MAXARR; return 0; }
    c->pos++;
    for (;;) {
        if (!vf_r_need(c, 1)) return 0;
        if (c->b[c->pos] == 0x43) { c->pos++; return 1; }
        if (!vf_r_value(c, od, ad, id, -1, -1, 0)) return 0;
    }
}
static int vf_r_value(vf_rctx *c, int od, int ad, int parent, int32_t nstart, int32_t name_off, int32_t name_len)
{
    if (!vf_r_need(c, 1)) return 0;
    uint8_t t = c->b[c->pos];
    int64_t v;
    size_t l;
    int id;
    int ok;
    switch (t) {
    case 0x40:
        id = vf_r_mknode(c, VK_OBJ, parent, nstart, name_off, name_len);
        ok = vf_r_object(c, od + 1, id);
        if (ok && c->out) c->out->n[id].end = (int32_t) c->pos;
        return ok;
    case 0x42:
        id = vf_r_mknode(c, VK_ARR, parent, nstart, name_off, name_len);
        ok = vf_r_array(c, od, ad + 1, id);
        if (ok && c->out) c->out->n[id].end = (int32_t) c->pos;
        return ok;
    case 0x44: case 0x45:
        id = vf_r_mknode(c, VK_BOOL, parent, nstart, name_off, name_len);
        c->pos++;
        if (c->out) { c->out->n[id].bval = (t == 0x44); c->out->n[id].end = (int32_t) c->pos; }
        return 1;
    case 0x46:
        id = vf_r_mknode(c, VK_DBL, parent, nstart, name_off, name_len);
        c->pos++;
        if (!vf_r_need(c, 8)) return 0;
        if (c->out) {
            uint64_t u = 0;
            for (int i = 7; i >= 0; i--) u = (u << 8) | c->b[c->pos + (size_t) i];
            c->out->n[id].dbits = u;
        }
        c->pos += 8;
        if (c->out) c->out->n[id].end = (int32_t) c->pos;
        return 1;
    case 0x10: case 0x11: case 0x12: case 0x13:
        id = vf_r_mknode(c, VK_INT, parent, nstart, name_off, name_len);
        c->pos++;
        if (!vf_r_int(c, 1 << (t & 3), &v)) return 0;
        if (c->out) { c->out->n[id].ival = v; c->out->n[id].end = (int32_t) c->pos; }
        return 1;
    case 0x14: case 0x15: case 0x16: case 0x18: case 0x19: case 0x1a:
        id = vf_r_mknode(c, t < 0x18 ? VK_STR : VK_BYT, parent, nstart, name_off, name_len);
        c->pos++;
        if (!vf_r_len(c, 1 << (t & 3), &l)) return 0;
        if (c->out) { c->out->n[id].pay_off = (int32_t) c->pos; c->out->n[id].pay_len = (int32_t) l; }
        c->pos += l;
        if (c->out) c->out->n[id].end = (int32_t) c->pos;
        return 1;
    default:
        c->err = VR_FORMAT;
        return 0;
    }
}
/* kind: VK_OBJ or VK_ARR. maxdepth = the parser's max_depth d. Returns VR_*.
 * An array-rooted parser spends one level on the root array, so objects below
 * an array root may nest to d-1 (documented reading, DESIGN 3/C02).
 * out (optional) receives the tree; out->bytes is NOT touched. */
static inline int vf_ref_decode(const uint8_t *b, size_t n, int kind, int maxdepth, vf_doc *out)
{
    vf_rctx c;
    memset(&c, 0, sizeof c);
    c.b = b; c.n = n; c.maxdepth = maxdepth; c.maxarr = 255; c.out = out;
    if (out) { out->nn = 0; out->root_kind = kind; }
    if (n < 2) return VR_RANGE;
    int ok;
    if (kind == VK_OBJ) {
        if (b[0] != 0x40 || b[n - 1] != 0x41) return VR_FORMAT;
        int id = vf_r_mknode(&c, VK_OBJ, -1, 0, -1, 0);
        ok = vf_r_object(&c, 1, id);
        if (ok && out) out->n[id].end = (int32_t) c.pos;
    } else {
        if (b[0] != 0x42 || b[n - 1] != 0x43) return VR_FORMAT;
        int id = vf_r_mknode(&c, VK_ARR, -1, 0, -1, 0);
        c.maxdepth = maxdepth; /* root array occupies level 1: objects start at 2 */
        ok = vf_r_array(&c, 1, 1, id);
        if (ok && out) out->n[id].end = (int32_t) c.pos;
    }
    if (ok && c.pos != n) { ok = 0; c.err = VR_FORMAT; }
    return ok ? VR_OK : c.err;
}

/* structural equality of two trees over the same bytes (oracle self-check) */
static inline bool vf_tree_equal(const vf_doc *a, const vf_doc *b)
{
    if (a->nn != b->nn) return false;
    for (int i = 0; i < a->nn; i++) {
        const vf_node *x = &a->n[i], *y = &b->n[i];
        if (x->kind != y->kind || x->parent != y->parent || x->nstart != y->nstart || x->name_off != y->name_off ||
            (x->name_off >= 0 && x->name_len != y->name_len) || x->start != y->start || x->end != y->end ||
            x->nch != y->nch || x->first != y->first || x->next != y->next || x->idx != y->idx)
            return false;
        switch (x->kind) {
        case VK_BOOL: if (x->bval != y->bval) return false; break;
        case VK_INT:  if (x->ival != y->ival) return false; break;
        case VK_DBL:  if (x->dbits != y->dbits) return false; break;
        case VK_STR: case VK_BYT: if (x->pay_off != y->pay_off || x->pay_len != y->pay_len) return false; break;
        default: break;
        }
    }
    return true;
}

/* --------------------------------------------------------------- renderer
 * objects {"name":value,...}, arrays [v,...], exactly one comma between
 * siblings, integers decimal, doubles printf %f, booleans true/false, bytes
 * "0x<hex>", names and strings quoted verbatim up to a 0x00 byte. */
/* optional: offsets in the rendering where a token's text begins or ends (capacity boundaries of interest) */
static size_t *vf_render_marks; static int vf_render_nmarks, vf_render_maxmarks;
static inline void vf_render_mark(const vf_str *o) { if (vf_render_marks && vf_render_nmarks < vf_render_maxmarks) vf_render_marks[vf_render_nmarks++] = o->n; }
static void vf_render_node(const vf_doc *d, int id, vf_str *o)
{
    const vf_node *x = &d->n[id];
    vf_render_mark(o);
    if (x->name_off >= 0) {
        size_t l = strnlen((const char *) d->bytes + x->name_off, (size_t) x->name_len);
        vf_str_printf(o, "\"%.*s\":", (int) l, (const char *) d->bytes + x->name_off);
        vf_render_mark(o);
    }
    switch (x->kind) {
    case VK_OBJ: case VK_ARR:
        vf_str_printf(o, "%c", x->kind == VK_OBJ ? '{' : '[');
        for (int c = x->first; c >= 0; c = d->n[c].next) {
            if (c != x->first) vf_str_printf(o, ",");
            vf_render_node(d, c, o);
        }
        vf_str_printf(o, "%c", x->kind == VK_OBJ ? '}' : ']');
        break;
    case VK_BOOL: vf_str_printf(o, "%s", x->bval ? "true" : "false"); break;
    case VK_INT: vf_str_printf(o, "%lld", (long long) x->ival); break;
    case VK_DBL: { double v; memcpy(&v, &x->dbits, 8); vf_str_printf(o, "%f", v); break; }
    case VK_STR: {
        size_t l = strnlen((const char *) d->bytes + x->pay_off, (size_t) x->pay_len);
        vf_str_printf(o, "\"%.*s\"", (int) l, (const char *) d->bytes + x->pay_off);
        break;
    }
    case VK_BYT:
        vf_str_printf(o, "\"0x");
        for (int i = 0; i < x->pay_len; i++) vf_str_printf(o, "%02x", d->bytes[x->pay_off + i]);
        vf_str_printf(o, "\"");
        break;
    default: break;
    }
    vf_render_mark(o);
}
static inline void vf_ref_render(const vf_doc *d, vf_str *o) { vf_str_reset(o); vf_render_node(d, 0, o); }

/* bytewise name order of the specification: memcmp, then shorter first */
static inline int vf_name_cmp(const uint8_t *a, size_t al, const uint8_t *b, size_t bl)
{
    size_t m = al < bl ? al : bl;
    int r = m ? memcmp(a, b, m) : 0;
    if (r) return r;
    return al < bl ? -1 : (al > bl ? 1 : 0);
}

#endif
