/* vf_util.h - small utilities shared by all checkers (no dependency on /repo) */
#ifndef VF_UTIL_H
#define VF_UTIL_H
#define _GNU_SOURCE 1
#include <stdint.h>
#include <stddef.h>
#include <stdbool.h>
#include <stdio.h>
#include <stdlib.h>
#include <string.h>
#include <stdarg.h>
#include <time.h>
#include <unistd.h>

#define VF_EXIT_OK        0
#define VF_EXIT_VIOLATION 1
#define VF_EXIT_HARNESS   2   /* the harness itself is broken (never a verdict) */

static void vf_die(const char *fmt, ...) __attribute__((noreturn, format(printf, 1, 2)));
static void vf_die(const char *fmt, ...)
{
    va_list ap;
    va_start(ap, fmt);
    fprintf(stderr, "HARNESS-ERROR: ");
    vfprintf(stderr, fmt, ap);
    fprintf(stderr, "\n");
    va_end(ap);
    fflush(NULL);
    _exit(VF_EXIT_HARNESS);
}

static inline double vf_now(void)
{
    struct timespec ts;
    clock_gettime(CLOCK_MONOTONIC, &ts);
    return (double) ts.tv_sec + 1e-9 * (double) ts.tv_nsec;
}

/* Fills the stack region the next library call will use with a fixed pattern, so that a library that reads an uninitialised local
 * fails the same way on every run (and on the replay) instead of depending on what ran before. */
static __attribute__((noinline)) void vf_stack_paint(void)
{
    volatile uint8_t pad[2560];     /* the library's deepest call path uses about 0.8 KB (C17); printf-based paths go deeper in libc, which initialises its own frames */
    memset((void *) pad, 0xEE, sizeof pad);
    __asm__ volatile("" : : "r"(pad) : "memory");
}

static inline void *vf_xmalloc(size_t n)
{
    void *p = malloc(n ? n : 1);
    if (!p) vf_die("out of memory (%zu)", n);
    return p;
}
static inline void *vf_xrealloc(void *q, size_t n)
{
    void *p = realloc(q, n ? n : 1);
    if (!p) vf_die("out of memory (%zu)", n);
    return p;
}

/* FNV-1a 64 with a final avalanche; used for hash tables and digests */
static inline uint64_t vf_hash_bytes(uint64_t h, const void *p, size_t n)
{
    const uint8_t *b = (const uint8_t *) p;
    for (size_t i = 0; i < n; i++) { h ^= b[i]; h *= 0x100000001b3ULL; }
    return h;
}
#define VF_HASH_INIT 0xcbf29ce484222325ULL
static inline uint64_t vf_mix(uint64_t x)
{
    x ^= x >> 33; x *= 0xff51afd7ed558ccdULL; x ^= x >> 33; x *= 0xc4ceb9fe1a85ec53ULL; x ^= x >> 33;
    return x;
}
static inline uint64_t vf_hash_u64(uint64_t h, uint64_t v) { return vf_hash_bytes(h, &v, sizeof v); }

/* hex helpers */
static inline void vf_hex(char *out, const uint8_t *b, size_t n)
{
    static const char d[] = "0123456789abcdef";
    for (size_t i = 0; i < n; i++) { out[2*i] = d[b[i] >> 4]; out[2*i+1] = d[b[i] & 15]; }
    out[2*n] = 0;
}
static inline int vf_unhex1(int c)
{
    if (c >= '0' && c <= '9') return c - '0';
    if (c >= 'a' && c <= 'f') return c - 'a' + 10;
    if (c >= 'A' && c <= 'F') return c - 'A' + 10;
    return -1;
}
/* returns number of bytes decoded, -1 on error */
static inline long vf_unhex(uint8_t *out, size_t cap, const char *s)
{
    size_t n = 0;
    while (*s && *s != '\n' && *s != ' ') {
        int a = vf_unhex1(s[0]), b = s[1] ? vf_unhex1(s[1]) : -1;
        if (a < 0 || b < 0 || n >= cap) return -1;
        out[n++] = (uint8_t) (a * 16 + b);
        s += 2;
    }
    return (long) n;
}

/* growable byte string */
typedef struct { char *s; size_t n, cap; } vf_str;
static inline void vf_str_reserve(vf_str *b, size_t extra)
{
    if (b->n + extra + 1 > b->cap) {
        b->cap = (b->n + extra + 1) * 2 + 64;
        b->s = (char *) vf_xrealloc(b->s, b->cap);
    }
}
static void vf_str_printf(vf_str *b, const char *fmt, ...) __attribute__((format(printf, 2, 3)));
static void vf_str_printf(vf_str *b, const char *fmt, ...)
{
    va_list ap, aq;
    va_start(ap, fmt);
    va_copy(aq, ap);
    int need = vsnprintf(NULL, 0, fmt, ap);
    va_end(ap);
    if (need < 0) vf_die("vsnprintf");
    vf_str_reserve(b, (size_t) need);
    vsnprintf(b->s + b->n, (size_t) need + 1, fmt, aq);
    va_end(aq);
    b->n += (size_t) need;
}
static inline void vf_str_hex(vf_str *b, const uint8_t *p, size_t n)
{
    vf_str_reserve(b, 2 * n);
    vf_hex(b->s + b->n, p, n);
    b->n += 2 * n;
}
static inline void vf_str_reset(vf_str *b) { b->n = 0; if (b->s) b->s[0] = 0; }
static inline void vf_str_free(vf_str *b) { free(b->s); b->s = NULL; b->n = b->cap = 0; }
/* JSON-escape a C string into b */
static inline void vf_str_json(vf_str *b, const char *s)
{
    vf_str_printf(b, "\"");
    for (; *s; s++) {
        unsigned char c = (unsigned char) *s;
        if (c == '"' || c == '\\') vf_str_printf(b, "\\%c", c);
        else if (c < 0x20 || c >= 0x7f) vf_str_printf(b, "\\u%04x", c);
        else vf_str_printf(b, "%c", c);
    }
    vf_str_printf(b, "\"");
}

/* ------------------------------------------------------------------------
 * Exact-key hash set over fixed-size records kept in one arena.
 * Used as the "visited" set of the explicit-state searches: keys are compared
 * byte for byte (the hash only selects the bucket), so two different states are
 * never merged.
 * --------------------------------------------------------------------- */
typedef struct {
    size_t   rec;        /* record size in bytes */
    uint8_t *arena;      /* n records */
    size_t   n, cap;
    uint32_t *slot;      /* open addressing, value = index+1 */
    size_t   nslot;      /* power of two */
} vf_set;

static inline void vf_set_init(vf_set *s, size_t rec)
{
    memset(s, 0, sizeof *s);
    s->rec = rec;
    s->cap = 256;
    s->arena = (uint8_t *) vf_xmalloc(s->cap * rec);
    s->nslot = 1024;
    s->slot = (uint32_t *) vf_xmalloc(s->nslot * sizeof(uint32_t));
    memset(s->slot, 0, s->nslot * sizeof(uint32_t));
}
static inline void vf_set_clear(vf_set *s)
{
    s->n = 0;
    if (s->nslot > 65536) { /* shrink again after a large document */
        s->nslot = 1024;
        s->slot = (uint32_t *) vf_xrealloc(s->slot, s->nslot * sizeof(uint32_t));
    }
    memset(s->slot, 0, s->nslot * sizeof(uint32_t));
}
static inline void vf_set_free(vf_set *s) { free(s->arena); free(s->slot); memset(s, 0, sizeof *s); }
static inline uint8_t *vf_set_at(vf_set *s, size_t i) { return s->arena + i * s->rec; }
static inline void vf_set_rehash(vf_set *s)
{
    size_t ns = s->nslot * 4;
    uint32_t *sl = (uint32_t *) vf_xmalloc(ns * sizeof(uint32_t));
    memset(sl, 0, ns * sizeof(uint32_t));
    for (size_t i = 0; i < s->n; i++) {
        uint64_t h = vf_mix(vf_hash_bytes(VF_HASH_INIT, vf_set_at(s, i), s->rec));
        size_t k = (size_t) h & (ns - 1);
        while (sl[k]) k = (k + 1) & (ns - 1);
        sl[k] = (uint32_t) (i + 1);
    }
    free(s->slot);
    s->slot = sl;
    s->nslot = ns;
}
/* insert the record; returns its index; *is_new tells whether it was added */
static inline size_t vf_set_insert(vf_set *s, const void *key, bool *is_new)
{
    if ((s->n + 1) * 2 > s->nslot) vf_set_rehash(s);
    uint64_t h = vf_mix(vf_hash_bytes(VF_HASH_INIT, key, s->rec));
    size_t k = (size_t) h & (s->nslot - 1);
    while (s->slot[k]) {
        size_t i = s->slot[k] - 1;
        if (memcmp(vf_set_at(s, i), key, s->rec) == 0) { *is_new = false; return i; }
        k = (k + 1) & (s->nslot - 1);
    }
    if (s->n == s->cap) {
        s->cap *= 2;
        s->arena = (uint8_t *) vf_xrealloc(s->arena, s->cap * s->rec);
    }
    memcpy(vf_set_at(s, s->n), key, s->rec);
    s->slot[k] = (uint32_t) (s->n + 1);
    *is_new = true;
    return s->n++;
}

#endif
