/* vf_gen.h - exhaustive input enumerators.
 *   E-DOC: every valid document with <= N value tokens over an explicit leaf
 *          and name alphabet (grammar directed: nothing is filtered away).
 *   E-TOK: every sequence of <= L tokens over an explicit token alphabet.
 * Nothing here is random. */
#ifndef VF_GEN_H
#define VF_GEN_H
#include "vf_ref.h"

/* ----- leaf classes. The k-th leaf of a document gets a value derived from k so
 * that all leaves of one document are pairwise distinct (a skipped or repeated
 * element cannot hide behind an equal sibling). */
enum {
    LC_INT8 = 1,    /* k+1                      (1 byte)  */
    LC_INT16,       /* 1000+k                   (2 bytes) */
    LC_INT32,       /* 100000+k                 (4 bytes) */
    LC_INT64,       /* 2^40+k                   (8 bytes) */
    LC_NEG8,        /* -(k+1) */
    LC_NEG16,       /* -1000-k */
    LC_NEG32,       /* -100000-k */
    LC_NEG64,       /* -2^40-k */
    LC_STR,         /* "s<k>" */
    LC_STR0,        /* "" */
    LC_STRNUL,      /* "x\0<k>" : embedded NUL */
    LC_STR128,      /* 128 bytes, 2-byte length prefix */
    LC_BYT,         /* {0xb0+k, 0x00, 0xff} */
    LC_BYT0,        /* empty bytes */
    LC_BYT40,       /* 40 bytes */
    LC_DBL,         /* k + 0.5 */
    LC_DBLBIG,      /* -1e308 (316 characters as %f) */
    LC_TRUE,
    LC_FALSE,
    LC_INTMIN,      /* INT64_MIN */
    LC_STR32K,      /* 32768 bytes: the smallest string that needs a 4-byte length prefix */
    LC_BYT32K,      /* 32768 bytes of binary */
    LC_STRHI,       /* "h<k>" + 0xc3 0xa9: text whose last bytes are >= 0x80 (plain char signedness) */
    LC_OBJ = 100,   /* containers */
    LC_ARR
};

static inline void vf_emit_leaf(vf_doc *d, int cls, int k)
{
    char tmp[160];
    switch (cls) {
    case LC_INT8:  vf_b_int(d, k + 1); break;
    case LC_INT16: vf_b_int(d, 1000 + k); break;
    case LC_INT32: vf_b_int(d, 100000 + k); break;
    case LC_INT64: vf_b_int(d, (1LL << 40) + k); break;
    case LC_NEG8:  vf_b_int(d, -(k + 1)); break;
    case LC_NEG16: vf_b_int(d, -1000 - k); break;
    case LC_NEG32: vf_b_int(d, -100000 - k); break;
    case LC_NEG64: vf_b_int(d, -(1LL << 40) - k); break;
    case LC_INTMIN: vf_b_int(d, INT64_MIN); break;
    case LC_STR:   { int l = snprintf(tmp, sizeof tmp, "s%d", k); vf_b_blob(d, VK_STR, tmp, (size_t) l); break; }
    case LC_STR0:  vf_b_blob(d, VK_STR, "", 0); break;
    case LC_STRHI: { int l = snprintf(tmp, sizeof tmp, "h%d\xc3\xa9", k); vf_b_blob(d, VK_STR, tmp, (size_t) l); break; }
    case LC_STRNUL: tmp[0] = 'x'; tmp[1] = 0; tmp[2] = (char) ('0' + k % 10); vf_b_blob(d, VK_STR, tmp, 3); break;
    case LC_STR128: memset(tmp, 'a' + k % 26, 128); vf_b_blob(d, VK_STR, tmp, 128); break;
    case LC_BYT:   tmp[0] = (char) (0xb0 + k); tmp[1] = 0; tmp[2] = (char) 0xff; vf_b_blob(d, VK_BYT, tmp, 3); break;
    case LC_BYT0:  vf_b_blob(d, VK_BYT, "", 0); break;
    case LC_BYT40: for (int i = 0; i < 40; i++) tmp[i] = (char) (k * 7 + i * 13); vf_b_blob(d, VK_BYT, tmp, 40); break;
    case LC_DBL:   { double v = k + 0.5; uint64_t u; memcpy(&u, &v, 8); vf_b_dbits(d, u); break; }
    case LC_DBLBIG: { double v = -1e308; uint64_t u; memcpy(&u, &v, 8); vf_b_dbits(d, u); break; }
    case LC_STR32K: case LC_BYT32K: {
        static uint8_t big[32768];
        if (!big[0]) { memset(big, 's', sizeof big); big[100] = 0x80; big[32767] = 'e'; }
        big[1] = (uint8_t) ('0' + k % 10);
        vf_b_blob(d, cls == LC_STR32K ? VK_STR : VK_BYT, big, sizeof big);
        break;
    }
    case LC_TRUE:  vf_b_bool(d, true); break;
    case LC_FALSE: vf_b_bool(d, false); break;
    default: vf_die("unknown leaf class %d", cls);
    }
}

typedef struct { const uint8_t *p; size_t len; } vf_name;

typedef struct vf_gen vf_gen;
typedef void (*vf_doc_cb)(vf_gen *g, void *u);
struct vf_gen {
    /* configuration */
    int            root_kind;       /* VK_OBJ / VK_ARR */
    int            max_tokens;      /* N: value tokens below the root */
    const int     *classes;         /* value classes incl. LC_OBJ / LC_ARR */
    int            nclasses;
    const vf_name *names;           /* strictly ascending in the Binson order */
    int            nnames;
    int            max_obj_depth;   /* objects nested (root object counts as 1), 0 = unlimited */
    vf_doc_cb      cb;
    void          *u;
    /* state */
    vf_doc         doc;
    uint64_t       index;           /* index of the current complete document */
    int            leafk;
    int            lastname[VF_MAXNODES];  /* per open container: last used name index */
    int            odepth;
    bool           stop;
};

typedef struct { size_t len; int nn, nopen, leafk; int32_t p_last, p_first, p_nch, prev_next_of; } vf_mark;
static inline void vf_gen_mark(vf_gen *g, vf_mark *m)
{
    vf_doc *d = &g->doc;
    m->len = d->len; m->nn = d->nn; m->nopen = d->nopen; m->leafk = g->leafk;
    int p = d->open[d->nopen - 1];
    m->p_last = d->n[p].last; m->p_first = d->n[p].first; m->p_nch = d->n[p].nch;
}
static inline void vf_gen_undo(vf_gen *g, const vf_mark *m)
{
    vf_doc *d = &g->doc;
    d->len = m->len; d->nn = m->nn; d->nopen = m->nopen; g->leafk = m->leafk;
    int p = d->open[d->nopen - 1];
    d->n[p].last = m->p_last; d->n[p].first = m->p_first; d->n[p].nch = m->p_nch;
    if (m->p_last >= 0) d->n[m->p_last].next = -1;
    d->pend_name_off = -1;
}
static void vf_gen_rec(vf_gen *g, int budget)
{
    vf_doc *d = &g->doc;
    if (g->stop) return;
    int top = d->open[d->nopen - 1];
    /* option 1: close the innermost container */
    {
        size_t len0 = d->len;
        int wasobj = d->n[top].kind == VK_OBJ;
        int savedl = g->lastname[d->nopen - 1];     /* a sibling opened later reuses this slot */
        vf_b_close(d);
        if (wasobj) g->odepth--;
        if (d->nopen == 0) {
            g->cb(g, g->u);
            g->index++;
        } else {
            vf_gen_rec(g, budget);
        }
        if (wasobj) g->odepth++;
        d->open[d->nopen++] = top;
        g->lastname[d->nopen - 1] = savedl;
        d->len = len0;
    }
    if (budget <= 0 || g->stop) return;
    bool inobj = d->n[top].kind == VK_OBJ;
    int slot = d->nopen - 1;
    int n0 = inobj ? g->lastname[slot] + 1 : 0, n1 = inobj ? g->nnames : 1;
    for (int ni = n0; ni < n1; ni++) {
        for (int ci = 0; ci < g->nclasses; ci++) {
            int cls = g->classes[ci];
            if (cls == LC_OBJ && g->max_obj_depth && g->odepth + 1 > g->max_obj_depth) continue;
            vf_mark m;
            vf_gen_mark(g, &m);
            int savedlast = g->lastname[slot];
            if (inobj) { vf_b_name(d, g->names[ni].p, g->names[ni].len); g->lastname[slot] = ni; }
            if (cls == LC_OBJ || cls == LC_ARR) {
                vf_b_open(d, cls == LC_OBJ ? VK_OBJ : VK_ARR);
                g->lastname[d->nopen - 1] = -1;
                if (cls == LC_OBJ) g->odepth++;
                vf_gen_rec(g, budget - 1);
                if (cls == LC_OBJ) g->odepth--;
            } else {
                vf_emit_leaf(d, cls, g->leafk++);
                vf_gen_rec(g, budget - 1);
            }
            g->lastname[slot] = savedlast;
            vf_gen_undo(g, &m);
            if (g->stop) return;
        }
    }
}
/* enumerate all documents; cb is called with g->doc complete (bytes + tree) */
static inline void vf_gen_run(vf_gen *g)
{
    vf_b_reset(&g->doc);
    g->index = 0; g->leafk = 0; g->stop = false;
    g->odepth = g->root_kind == VK_OBJ ? 1 : 0;
    vf_b_open(&g->doc, g->root_kind);
    g->lastname[0] = -1;
    vf_gen_rec(g, g->max_tokens);
}

/* a short printable form of the document shape, for samples and logs */
static void vf_shape_node(const vf_doc *d, int id, vf_str *o)
{
    const vf_node *x = &d->n[id];
    if (x->name_off >= 0) {
        vf_str_printf(o, "\"");
        for (int i = 0; i < x->name_len && i < 12; i++) {
            uint8_t c = d->bytes[x->name_off + i];
            if (c >= 0x20 && c < 0x7f && c != '"' && c != '\\') vf_str_printf(o, "%c", c); else vf_str_printf(o, "\\x%02x", c);
        }
        if (x->name_len > 12) vf_str_printf(o, "..(%d)", x->name_len);
        vf_str_printf(o, "\":");
    }
    switch (x->kind) {
    case VK_OBJ: case VK_ARR:
        vf_str_printf(o, "%c", x->kind == VK_OBJ ? '{' : '[');
        for (int c = x->first; c >= 0; c = d->n[c].next) { if (c != x->first) vf_str_printf(o, ","); vf_shape_node(d, c, o); }
        vf_str_printf(o, "%c", x->kind == VK_OBJ ? '}' : ']');
        break;
    case VK_BOOL: vf_str_printf(o, "%s", x->bval ? "true" : "false"); break;
    case VK_INT: vf_str_printf(o, "%lld", (long long) x->ival); break;
    case VK_DBL: { double v; memcpy(&v, &x->dbits, 8); vf_str_printf(o, "%g", v); break; }
    case VK_STR: vf_str_printf(o, "str(%d)", x->pay_len); break;
    case VK_BYT: vf_str_printf(o, "bytes(%d)", x->pay_len); break;
    default: break;
    }
}
static inline const char *vf_shape(const vf_doc *d)
{
    static vf_str s;
    vf_str_reset(&s);
    vf_shape_node(d, 0, &s);
    return s.s;
}

/* marks the interior of every name / string / bytes payload longer than 8 bytes (all but its first 2 and last 2 bytes) */
static inline void vf_mask_long_payloads(const vf_doc *d, uint8_t *mask)
{
    memset(mask, 0, d->len);
    for (int i = 0; i < d->nn; i++) {
        const vf_node *x = &d->n[i];
        if (x->name_off >= 0 && x->name_len > 8) memset(mask + x->name_off + 2, 1, (size_t) x->name_len - 4);
        if ((x->kind == VK_STR || x->kind == VK_BYT) && x->pay_len > 8) memset(mask + x->pay_off + 2, 1, (size_t) x->pay_len - 4);
    }
}
#define VF_LNAME128 "mmmmmmmmmmmmmmmmmmmmmmmmmmmmmmmmmmmmmmmmmmmmmmmmmmmmmmmmmmmmmmmmmmmmmmmmmmmmmmmmmmmmmmmmmmmmmmmmmmmmmmmmmmmmmmmmmmmmmmmmmmmmmmmmmmmmmmmm"
/* a < b < 127-byte name < 128-byte name: the last one needs a 2-byte length prefix, the third is the longest with a 1-byte prefix */
static const vf_name vf_names_abL[] = { { (const uint8_t *) "a", 1 }, { (const uint8_t *) "b", 1 }, { (const uint8_t *) VF_LNAME128, 127 }, { (const uint8_t *) VF_LNAME128, 128 } };

/* a < b < huge name of `len` bytes (default 32768: the smallest that needs a 4-byte length prefix; 65537: more than 16 bits) */
static uint8_t vf_hname_buf[70001];
static vf_name vf_names_abH[3];
static inline const vf_name *vf_names_abH_len(size_t len)
{
    if (len > 70000) vf_die("huge name too long");
    memset(vf_hname_buf, 'h', sizeof vf_hname_buf);
    vf_names_abH[0] = (vf_name) { (const uint8_t *) "a", 1 }; vf_names_abH[1] = (vf_name) { (const uint8_t *) "b", 1 };
    vf_names_abH[2] = (vf_name) { vf_hname_buf, len };
    return vf_names_abH;
}
static inline const vf_name *vf_names_abH_get(void) { return vf_names_abH_len(32768); }

/* ---------------------------------------------------------------- sibling family
 * Every PAIR (level >= 1) and every TRIPLE (level >= 2) of small sibling subtrees under an object root (member names "" < "a" < "b"
 * or "a" < "b" < "c") and under an array root: what one sibling leaves behind in the per-level state meets every shape of the next
 * one - a slice of the documents with 4..9 value tokens that the plain enumeration (<= 3..5 tokens) does not reach.
 * The pairs of the 16 smallest shapes are also delivered one level further down (4 wrapped forms).
 * Subtrees: 27 shapes with <= 3 value tokens over {int, string, {}, []} with inner names "" and "a" (pairs); the 16 shapes with <= 2
 * tokens (triples). Documents are delivered through g->cb exactly as vf_gen_run does (g->doc, g->index). */
#define VF_NSIB 27
#define VF_NSIB_SMALL 16
static inline void vf_sib_subtree(vf_gen *g, int s)
{
    vf_doc *d = &g->doc;
    static const int leafcls[2] = { LC_INT8, LC_STR };
#define SIB_LEAF(c) vf_emit_leaf(d, leafcls[c], g->leafk++)
#define SIB_VAL(c) do { if ((c) < 2) SIB_LEAF(c); else { vf_b_open(d, (c) == 2 ? VK_OBJ : VK_ARR); vf_b_close(d); } } while (0)
#define SIB_NAME(n) vf_b_name(d, (n) ? "a" : "", (n) ? 1 : 0)
    if (s < 4) { SIB_VAL(s); return; }
    if (s < 12) { int n = (s - 4) / 4, c = (s - 4) % 4; vf_b_open(d, VK_OBJ); SIB_NAME(n); SIB_VAL(c); vf_b_close(d); return; }
    if (s < 16) { vf_b_open(d, VK_ARR); SIB_VAL(s - 12); vf_b_close(d); return; }
    switch (s) {
    case 16: case 17: case 18: case 19: { int n = (s - 16) / 2, m = (s - 16) % 2; vf_b_open(d, VK_OBJ); SIB_NAME(n); vf_b_open(d, VK_OBJ); SIB_NAME(m); SIB_LEAF(0); vf_b_close(d); vf_b_close(d); break; }
    case 20: case 21: vf_b_open(d, VK_OBJ); SIB_NAME(s - 20); vf_b_open(d, VK_ARR); SIB_LEAF(0); vf_b_close(d); vf_b_close(d); break;
    case 22: case 23: vf_b_open(d, VK_ARR); vf_b_open(d, VK_OBJ); SIB_NAME(s - 22); SIB_LEAF(0); vf_b_close(d); vf_b_close(d); break;
    case 24: vf_b_open(d, VK_ARR); vf_b_open(d, VK_ARR); SIB_LEAF(0); vf_b_close(d); vf_b_close(d); break;
    case 25: vf_b_open(d, VK_OBJ); SIB_NAME(0); SIB_LEAF(0); SIB_NAME(1); SIB_LEAF(1); vf_b_close(d); break;
    default: vf_b_open(d, VK_ARR); SIB_LEAF(0); SIB_LEAF(1); vf_b_close(d); break;
    }
#undef SIB_LEAF
#undef SIB_VAL
#undef SIB_NAME
}
static inline void vf_sibling_run_ar(vf_gen *g, int arity_lo, int arity_hi)
{
    static const char *const nm[2][3] = { { "", "a", "b" }, { "a", "b", "c" } };
    g->index = 0; g->stop = false;
    for (int arity = arity_lo; arity <= arity_hi; arity++) {
        int ns = arity == 2 ? VF_NSIB : VF_NSIB_SMALL;
        int total = 1;
        for (int i = 0; i < arity; i++) total *= ns;
        for (int form = 0; form < 3; form++)          /* 0: object root, names from ""; 1: object root, names from "a"; 2: array root */
            for (int combo = 0; combo < total && !g->stop; combo++) {
                vf_b_reset(&g->doc);
                g->leafk = 0;
                g->root_kind = form == 2 ? VK_ARR : VK_OBJ;
                vf_b_open(&g->doc, g->root_kind);
                int c = combo;
                for (int i = 0; i < arity; i++) {
                    if (form != 2) vf_b_name(&g->doc, nm[form][i], strlen(nm[form][i]));
                    vf_sib_subtree(g, c % ns);
                    c /= ns;
                }
                vf_b_close(&g->doc);
                g->cb(g, g->u);
                g->index++;
            }
        /* the pairs of the 16 smallest shapes once more, one level further down, with something after the wrapper where the root
         * allows it: {"a":[X,Y]}, [{"":X,"a":Y}], {"a":{"":X,"a":Y},"b":1}, [[X,Y],2] (nesting of up to 4 levels) */
        if (arity == 2)
            for (int form = 3; form < 7; form++)
                for (int combo = 0; combo < VF_NSIB_SMALL * VF_NSIB_SMALL && !g->stop; combo++) {
                    vf_doc *d = &g->doc;
                    bool objroot = form == 3 || form == 5, objwrap = form == 4 || form == 5;
                    vf_b_reset(d);
                    g->leafk = 0;
                    g->root_kind = objroot ? VK_OBJ : VK_ARR;
                    vf_b_open(d, g->root_kind);
                    if (objroot) vf_b_name(d, "a", 1);
                    vf_b_open(d, objwrap ? VK_OBJ : VK_ARR);
                    if (objwrap) vf_b_name(d, "", 0);
                    vf_sib_subtree(g, combo % VF_NSIB_SMALL);
                    if (objwrap) vf_b_name(d, "a", 1);
                    vf_sib_subtree(g, combo / VF_NSIB_SMALL);
                    vf_b_close(d);
                    if (form == 5) { vf_b_name(d, "b", 1); vf_emit_leaf(d, LC_INT8, g->leafk++); }
                    if (form == 6) vf_emit_leaf(d, LC_INT8, g->leafk++);
                    vf_b_close(d);
                    g->cb(g, g->u);
                    g->index++;
                }
    }
}

static inline void vf_sibling_run(vf_gen *g, int level) { vf_sibling_run_ar(g, 2, level >= 2 ? 3 : 2); }

/* standard name alphabet a<b<c */
static const vf_name vf_names_abc[] = { { (const uint8_t *) "a", 1 }, { (const uint8_t *) "b", 1 }, { (const uint8_t *) "c", 1 } };

/* ---------------------------------------------------------------- E-TOK */
typedef struct { const char *label; uint8_t b[16]; uint8_t n; } vf_tok;

/* the hostile alphabet: every token kind in every width, minimal and
 * non-minimal forms, hostile length prefixes, undefined type bytes and
 * truncated multi-byte tokens. */
static const vf_tok vf_tok_hostile[] = {
    { "{", { 0x40 }, 1 }, { "}", { 0x41 }, 1 }, { "[", { 0x42 }, 1 }, { "]", { 0x43 }, 1 },
    { "T", { 0x44 }, 1 }, { "F", { 0x45 }, 1 },
    { "i8:1", { 0x10, 0x01 }, 2 }, { "i8:-128", { 0x10, 0x80 }, 2 },
    { "i16:128", { 0x11, 0x80, 0x00 }, 3 }, { "i16:5(nonmin)", { 0x11, 0x05, 0x00 }, 3 }, { "i16:-129", { 0x11, 0x7f, 0xff }, 3 },
    { "i32:32768", { 0x12, 0x00, 0x80, 0x00, 0x00 }, 5 }, { "i32:1(nonmin)", { 0x12, 0x01, 0x00, 0x00, 0x00 }, 5 },
    { "i64:2^31", { 0x13, 0x00, 0x00, 0x00, 0x80, 0x00, 0x00, 0x00, 0x00 }, 9 },
    { "i64:int32(nonmin)", { 0x13, 0xff, 0xff, 0xff, 0x7f, 0x00, 0x00, 0x00, 0x00 }, 9 },
    { "dbl", { 0x46, 0x00, 0x00, 0x00, 0x00, 0x00, 0x00, 0xf0, 0x3f }, 9 },
    { "s:a", { 0x14, 0x01, 'a' }, 3 }, { "s:b", { 0x14, 0x01, 'b' }, 3 }, { "s:", { 0x14, 0x00 }, 2 }, { "s:ab", { 0x14, 0x02, 'a', 'b' }, 4 },
    { "s16:a(nonmin)", { 0x15, 0x01, 0x00, 'a' }, 4 }, { "s32:a(nonmin)", { 0x16, 0x01, 0x00, 0x00, 0x00, 'a' }, 6 },
    { "s:len-1", { 0x14, 0xff }, 2 }, { "s:len127", { 0x14, 0x7f }, 2 }, { "s16:len-32768", { 0x15, 0x00, 0x80 }, 3 },
    { "s32:lenINT32MAX", { 0x16, 0xff, 0xff, 0xff, 0x7f }, 5 }, { "s32:len-1", { 0x16, 0xff, 0xff, 0xff, 0xff }, 5 },
    { "s64(illegal)", { 0x17, 0x01, 0, 0, 0, 0, 0, 0, 0, 'a' }, 10 },
    { "b:1", { 0x18, 0x01, 0xee }, 3 }, { "b:", { 0x18, 0x00 }, 2 }, { "b16(nonmin)", { 0x19, 0x01, 0x00, 0xee }, 4 },
    { "b32:lenINT32MAX", { 0x1a, 0xff, 0xff, 0xff, 0x7f }, 5 }, { "b:len-128", { 0x18, 0x80 }, 2 }, { "b64(illegal)", { 0x1b, 0x01, 0, 0, 0, 0, 0, 0, 0, 0xee }, 10 },
    { "x00", { 0x00 }, 1 }, { "x0f", { 0x0f }, 1 }, { "x1c", { 0x1c }, 1 }, { "x3f", { 0x3f }, 1 }, { "x47", { 0x47 }, 1 }, { "xff", { 0xff }, 1 },
    /* truncated tokens */
    { "i8|", { 0x10 }, 1 }, { "i16|", { 0x11, 0x80 }, 2 }, { "i32|", { 0x12, 0x00, 0x80, 0x00 }, 4 }, { "i64|", { 0x13, 0, 0, 0, 0x80 }, 5 },
    { "dbl|", { 0x46, 0, 0, 0 }, 4 }, { "s|", { 0x14 }, 1 }, { "s16|", { 0x15, 0x80 }, 2 }, { "s:2|a", { 0x14, 0x02, 'a' }, 3 }, { "b|", { 0x18 }, 1 },
    { "b:2|x", { 0x18, 0x02, 0xee }, 3 },
};
#define VF_NTOK_HOSTILE ((int) (sizeof vf_tok_hostile / sizeof vf_tok_hostile[0]))

/* a smaller alphabet (one representative per behaviour class) for the deepest bounds */
static const int vf_tok_core_idx[] = { 0, 1, 2, 3, 4, 6, 9, 8, 15, 16, 17, 18, 19, 20, 22, 25, 28, 29, 31, 34, 40, 44, 47, 49 };
#define VF_NTOK_CORE ((int) (sizeof vf_tok_core_idx / sizeof vf_tok_core_idx[0]))

typedef struct vf_tokenum vf_tokenum;
typedef void (*vf_seq_cb)(vf_tokenum *e, void *u);
struct vf_tokenum {
    const vf_tok *alpha;
    const int    *idx;          /* optional index list into alpha */
    int           ntok;
    int           maxlen;       /* L */
    int           frame;        /* 0 = unframed, VK_OBJ / VK_ARR = framed by root BEGIN..END */
    vf_seq_cb     cb;
    void         *u;
    /* partition: only prefixes whose first-two-token code % W == w are expanded */
    int           w, W;
    /* state */
    uint8_t       buf[256];
    size_t        len;
    int           seq[16];
    int           depth;
    uint64_t      index;        /* running index of complete sequences handed to cb */
    uint64_t      nodes;        /* nodes of the prefix tree visited */
    bool          stop;
};
static inline const vf_tok *vf_tokenum_tok(const vf_tokenum *e, int i) { return &e->alpha[e->idx ? e->idx[i] : i]; }
static void vf_tokenum_rec(vf_tokenum *e)
{
    if (e->stop) return;
    e->nodes++;
    /* hand over the sequence ending here */
    {
        size_t l0 = e->len;
        if (e->frame) e->buf[e->len++] = (uint8_t) (e->frame == VK_OBJ ? 0x41 : 0x43);
        bool mine = true;
        if (e->W > 1) {
            unsigned code = e->depth >= 2 ? (unsigned) (e->seq[0] * 131 + e->seq[1] * 7 + e->depth) : (unsigned) (e->depth * 5 + (e->depth ? e->seq[0] : 0));
            mine = (int) (code % (unsigned) e->W) == e->w;
        }
        if (mine) { e->cb(e, e->u); }
        e->index++;
        e->len = l0;
    }
    if (e->depth == e->maxlen) return;
    for (int i = 0; i < e->ntok; i++) {
        const vf_tok *t = vf_tokenum_tok(e, i);
        size_t l0 = e->len;
        memcpy(e->buf + e->len, t->b, t->n);
        e->len += t->n;
        e->seq[e->depth++] = i;
        vf_tokenum_rec(e);
        e->depth--;
        e->len = l0;
        if (e->stop) return;
    }
}
static inline void vf_tokenum_run(vf_tokenum *e)
{
    e->len = 0; e->depth = 0; e->index = 0; e->nodes = 0; e->stop = false;
    if (e->frame) e->buf[e->len++] = (uint8_t) (e->frame == VK_OBJ ? 0x40 : 0x42);
    vf_tokenum_rec(e);
}
static inline const char *vf_tokenum_label(const vf_tokenum *e)
{
    static char s[400];
    size_t n = 0;
    s[0] = 0;
    if (e->frame) n += (size_t) snprintf(s + n, sizeof s - n, "%s ", e->frame == VK_OBJ ? "{" : "[");
    for (int i = 0; i < e->depth && n < sizeof s - 40; i++) n += (size_t) snprintf(s + n, sizeof s - n, "%s ", vf_tokenum_tok(e, e->seq[i])->label);
    if (e->frame) snprintf(s + n, sizeof s - n, "%s", e->frame == VK_OBJ ? "}" : "]");
    return s;
}

/* ---------------------------------------------------------------- E-MUT
 * All one-deviation mutants of a byte string: every byte set to each value of
 * a 12-value byte alphabet, truncation after every byte, deletion and
 * duplication of every byte, every hostile token appended after the end and
 * inserted before the last byte, every byte +1 / -1. The callback gets the
 * mutant and a description. */
typedef void (*vf_mut_cb)(const uint8_t *m, size_t n, const char *what, void *u);
static const uint8_t vf_mut_bytevals[] = { 0x00, 0x01, 0x10, 0x14, 0x18, 0x40, 0x41, 0x42, 0x43, 0x7f, 0x80, 0xff };
/* optional: positions i with vf_mut_mask[i] != 0 get no byte-level mutation (used to thin out the interior of very
 * long payloads, whose bytes are all alike to the code under test) */
static const uint8_t *vf_mut_mask;
static void vf_mutants(const uint8_t *b, size_t n, uint8_t *scratch, size_t cap, vf_mut_cb cb, void *u)
{
    char what[80];
    uint8_t *m = scratch;
    if (n + 16 > cap) return;
    for (size_t i = 0; i < n; i++) {
        if (vf_mut_mask && vf_mut_mask[i]) continue;
        for (size_t v = 0; v < sizeof vf_mut_bytevals + 2; v++) {
            uint8_t nv = v < sizeof vf_mut_bytevals ? vf_mut_bytevals[v] : (uint8_t) (b[i] + (v == sizeof vf_mut_bytevals ? 1 : -1));
            if (b[i] == nv) continue;
            bool dup = false;
            if (v >= sizeof vf_mut_bytevals) for (size_t k = 0; k < sizeof vf_mut_bytevals; k++) if (vf_mut_bytevals[k] == nv) dup = true;
            if (dup) continue;
            memcpy(m, b, n); m[i] = nv;
            snprintf(what, sizeof what, "byte %zu := %02x", i, nv);
            cb(m, n, what, u);
        }
    }
    for (size_t i = 0; i < n; i++) {
        if (vf_mut_mask && vf_mut_mask[i]) continue;
        memcpy(m, b, i); snprintf(what, sizeof what, "truncated to %zu", i); cb(m, i, what, u);
        memcpy(m, b, i); memcpy(m + i, b + i + 1, n - i - 1); snprintf(what, sizeof what, "byte %zu deleted", i); cb(m, n - 1, what, u);
        memcpy(m, b, i + 1); memcpy(m + i + 1, b + i, n - i); snprintf(what, sizeof what, "byte %zu duplicated", i); cb(m, n + 1, what, u);
    }
    for (int t = 0; t < VF_NTOK_HOSTILE; t++) {
        const vf_tok *tk = &vf_tok_hostile[t];
        memcpy(m, b, n); memcpy(m + n, tk->b, tk->n); snprintf(what, sizeof what, "token %s appended", tk->label); cb(m, n + tk->n, what, u);
        if (n) { memcpy(m, b, n - 1); memcpy(m + n - 1, tk->b, tk->n); m[n - 1 + tk->n] = b[n - 1]; snprintf(what, sizeof what, "token %s inserted before the last byte", tk->label); cb(m, n + tk->n, what, u); }
    }
}

/* A complete root container followed by junk: T trailing bytes for T around every 8 / 16 / 17 / 18-bit boundary (a remainder test
 * done in a narrower type accepts exactly 256 or 65536 extra bytes), the junk ending in the matching END byte so that a first/last
 * byte quick check cannot reject it. cb(bytes, n, kind, label, u) for each of 4 roots x 20 lengths x 5 fill bytes. */
#define VF_TRAILING_MAX (262144 + 16)
typedef void (*vf_trailing_cb)(const uint8_t *b, size_t n, int kind, const char *label, void *u);
static inline void vf_trailing_inputs(vf_trailing_cb cb, void *u)
{
    static const uint8_t roots[][12] = { { 0x40, 0x41 }, { 0x42, 0x43 }, { 0x40, 0x14, 0x01, 'a', 0x10, 0x01, 0x41 }, { 0x42, 0x10, 0x01, 0x40, 0x14, 0x01, 'a', 0x42, 0x44, 0x43, 0x41, 0x43 } };
    static const size_t rlen[] = { 2, 2, 7, 12 };
    static const size_t T[] = { 1, 2, 3, 127, 128, 255, 256, 257, 511, 512, 32767, 32768, 65535, 65536, 65537, 131071, 131072, 131073, 196608, 262144 };
    static const uint8_t fills[] = { 0x00, 0x41, 0x43, 0x40, 0xff };
    static uint8_t *b;
    char label[120];
    if (!b) b = (uint8_t *) vf_xmalloc(VF_TRAILING_MAX);
    for (int r = 0; r < 4; r++)
        for (size_t ti = 0; ti < sizeof T / sizeof T[0]; ti++)
            for (size_t fi = 0; fi < sizeof fills; fi++) {
                int kind = roots[r][0] == 0x40 ? VK_OBJ : VK_ARR;
                memcpy(b, roots[r], rlen[r]);
                memset(b + rlen[r], fills[fi], T[ti]);
                b[rlen[r] + T[ti] - 1] = kind == VK_OBJ ? 0x41 : 0x43;
                snprintf(label, sizeof label, "trailing family: complete root %d followed by %zu bytes of 0x%02x ending in an END byte", r, T[ti], fills[fi]);
                cb(b, rlen[r] + T[ti], kind, label, u);
            }
}

#endif
