/* vf_snap.h - the implementation side of the explicit-state searches: a live
 * parser object in exact-size heap blocks (so that ASan red zones sit directly
 * on both ends of the input buffer, of the parser struct and of the state
 * array), byte-image snapshots of it, and restore. */
#ifndef VF_SNAP_H
#define VF_SNAP_H
#include "vf_util.h"
#include "binson_light.h"

#define VF_MAXDEPTH_SNAP 16

typedef struct {
    binson_parser *p;           /* exact-size heap block */
    binson_state  *st;          /* exact-size heap block of max_depth entries */
    uint8_t       *buf;         /* exact-size heap block holding the input */
    size_t         len;
    int            max_depth;
} vf_live;

/* fill: byte pattern the parser struct and state array hold before first use.
 * Only .state and .max_depth are set by the caller, as the API documents. */
static inline void vf_live_alloc(vf_live *L, const uint8_t *bytes, size_t len, int max_depth, int fill)
{
    L->p = (binson_parser *) vf_xmalloc(sizeof(binson_parser));
    L->st = (binson_state *) vf_xmalloc(sizeof(binson_state) * (size_t) max_depth);
    L->buf = (uint8_t *) malloc(len ? len : 1);
    if (!L->buf) vf_die("oom");
    if (len == 0) {
        /* a zero-length region: point one past a 1-byte block's end is not
         * portable to free(); keep a 1-byte block and use its end */
        L->buf = (uint8_t *) vf_xrealloc(L->buf, 1);
        L->buf[0] = 0x5a;
    } else {
        memcpy(L->buf, bytes, len);
    }
    L->len = len;
    L->max_depth = max_depth;
    memset(L->p, fill, sizeof(binson_parser));
    memset(L->st, fill, sizeof(binson_state) * (size_t) max_depth);
    L->p->state = L->st;
    L->p->max_depth = (uint_fast8_t) max_depth;
}
/* the pointer the library is given: for len 0 the END of the 1-byte block, so
 * any read at all is a heap overflow */
static inline const uint8_t *vf_live_bufptr(const vf_live *L) { return L->len ? L->buf : L->buf + 1; }
static inline void vf_live_free(vf_live *L)
{
    free(L->p); free(L->st); free(L->buf);
    memset(L, 0, sizeof *L);
}

typedef struct {
    binson_parser p;
    binson_state  st[VF_MAXDEPTH_SNAP];
} vf_snap;

static inline size_t vf_snap_size(int max_depth) { return offsetof(vf_snap, st) + sizeof(binson_state) * (size_t) max_depth; }

static inline void vf_snap_save(vf_snap *s, const vf_live *L)
{
    if (L->max_depth > VF_MAXDEPTH_SNAP) vf_die("snapshot depth");
    memset(s, 0, sizeof *s);
    memcpy(&s->p, L->p, sizeof(binson_parser));
    memcpy(s->st, L->st, sizeof(binson_state) * (size_t) L->max_depth);
}
/* The live objects never move, so the interior pointers inside the image
 * (state, current_state, buffer, spans) stay valid. */
static inline void vf_snap_load(vf_live *L, const vf_snap *s)
{
    memcpy(L->p, &s->p, sizeof(binson_parser));
    memcpy(L->st, s->st, sizeof(binson_state) * (size_t) L->max_depth);
}

/* ------------------------------------------------------------------------
 * Type-directed canonical form (used where images of DIFFERENT live objects
 * or different builds must be compared: C12, C18). Pointers become offsets,
 * the value union is read through current_type, padding is not included. */
static inline uint64_t vf_off(const vf_live *L, const uint8_t *p)
{
    const uint8_t *b = vf_live_bufptr(L);
    if (p == NULL) return UINT64_MAX;
    if (p >= b && p <= b + L->len) return (uint64_t) (p - b);
    return UINT64_MAX - 1;        /* a pointer that is neither NULL nor inside the buffer */
}
static inline void vf_canon(vf_str *o, const vf_live *L)
{
    const binson_parser *p = L->p;
    vf_str_printf(o, "T%u D%u M%u S%zu U%zu E%d C%ld|", (unsigned) p->type, (unsigned) p->depth, (unsigned) p->max_depth, p->buffer_size,
                  p->buffer_used, (int) p->error_flags, p->current_state ? (long) (p->current_state - p->state) : -1L);
    for (int i = 0; i < L->max_depth; i++) {
        const binson_state *s = &L->st[i];
        vf_str_printf(o, "f%x a%u t%d n%llx/%zu ", (unsigned) s->flags, (unsigned) s->array_depth, (int) s->current_type,
                      (unsigned long long) vf_off(L, s->current_name.bptr), s->current_name.bptr ? s->current_name.bsize : 0);
        switch (s->current_type) {
        case BINSON_TYPE_STRING: case BINSON_TYPE_BYTES:
            vf_str_printf(o, "v%llx/%zu", (unsigned long long) vf_off(L, s->current_value.string_value.bptr), s->current_value.string_value.bsize);
            break;
        case BINSON_TYPE_INTEGER: vf_str_printf(o, "i%lld", (long long) s->current_value.integer_value); break;
        case BINSON_TYPE_DOUBLE: { uint64_t u; memcpy(&u, &s->current_value.double_value, 8); vf_str_printf(o, "d%llx", (unsigned long long) u); break; }
        case BINSON_TYPE_BOOLEAN: vf_str_printf(o, "b%d", (int) s->current_value.bool_value); break;
        default: break;
        }
        vf_str_printf(o, "|");
    }
}

/* size of the string token (a field name) that starts at offset off of the live buffer, 0 if there is none */
static inline size_t vf_name_token_size_at(const vf_live *L, size_t off)
{
    const uint8_t *b = vf_live_bufptr(L);
    if (off >= L->len || b[off] < 0x14 || b[off] > 0x16) return 0;
    size_t w = (size_t) 1 << (b[off] & 3);
    if (off + 1 + w > L->len) return 0;
    uint64_t l = 0;
    for (size_t i = 0; i < w; i++) l |= (uint64_t) b[off + 1 + i] << (8 * i);
    if (l > L->len) return 0;
    return 1 + w + (size_t) l;
}

static inline const char *vf_err_name(int e)
{
    static const char *const n[] = { "NONE", "RANGE", "FORMAT", "EOF", "END_OF_BLOCK", "NULL", "STATE", "WRONG_TYPE", "MAX_DEPTH_OBJECT", "MAX_DEPTH_ARRAY" };
    return (e >= 0 && e < 10) ? n[e] : "?";
}
static inline const char *vf_type_name(int t)
{
    static const char *const n[] = { "NONE", "OBJECT", "OBJECT_END", "ARRAY", "ARRAY_END", "BOOLEAN", "INTEGER", "DOUBLE", "STRING", "BYTES" };
    return (t >= 0 && t < 10) ? n[t] : "?";
}

#endif
