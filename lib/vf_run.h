/* vf_run.h - runtime shared by all checkers: option parsing, forked worker pool
 * with shared counters, violation / replay files, fatal-outcome capture
 * (signals, sanitizer reports, CPU-time watchdog), known findings, evidence. */
#ifndef VF_RUN_H
#define VF_RUN_H
#include "vf_util.h"
#include <signal.h>
#include <sys/mman.h>
#include <sys/wait.h>
#include <sys/stat.h>
#include <sys/time.h>
#include <sys/resource.h>
#include <errno.h>
#include <fcntl.h>

#ifndef VF_ROOT
#define VF_ROOT "/verif"
#endif

#define VF_MAXW      64
#define VF_NCTR      96
#define VF_MAXSIG    24
#define VF_NSAMPLE   4
#define VF_SAMPLE_SZ 700

typedef struct {
    char     sig[200];
    char     path[160];
    uint64_t count;
} vf_vrec;

typedef struct {
    uint64_t ctr[VF_NCTR];
    uint64_t cur_index;             /* enumeration index being worked on */
    uint64_t finished;
    uint64_t cap_hit;               /* stopped at the deadline */
    uint64_t nviol;                 /* all violations (before known-finding filtering) */
    uint64_t digest;                /* order-independent digest of outcomes (sum) */
    int      nsig;
    vf_vrec  v[VF_MAXSIG];
    int      nsample;
    char     sample[VF_NSAMPLE][VF_SAMPLE_SZ];
} vf_wshared;

typedef struct {
    const char *check;              /* driver name, e.g. "nav" */
    char        prop[16];           /* property being decided, e.g. "C06" */
    char        tier[16];           /* quick | thorough */
    int         thorough;
    int         workers;
    long        seed;
    const char *replay;             /* replay file or NULL */
    double      t0, deadline;       /* absolute deadline (vf_now) */
    int         wid, W;             /* in a worker: my id */
    vf_wshared *sh;                 /* W entries */
    const char *const *ctr_names;   /* VF_NCTR names (NULL = unused) */
    int         respawns;
    int         verbose;
} vf_global;

static vf_global vf_g;

/* ------------------------------------------------------------ counters */
static volatile uint64_t vf_progress;
static inline void vf_count(int c, uint64_t n) { vf_g.sh[vf_g.wid].ctr[c] += n; vf_progress++; }
static inline void vf_max(int c, uint64_t n) { if (vf_g.sh[vf_g.wid].ctr[c] < n) vf_g.sh[vf_g.wid].ctr[c] = n; }
static inline void vf_digest(uint64_t h) { vf_g.sh[vf_g.wid].digest += vf_mix(h); }
static inline void vf_set_index(uint64_t i) { vf_g.sh[vf_g.wid].cur_index = i; }
static inline bool vf_deadline_passed(void)
{
    if (vf_now() > vf_g.deadline) { vf_g.sh[vf_g.wid].cap_hit = 1; return true; }
    return false;
}
static void vf_sample(const char *fmt, ...) __attribute__((format(printf, 1, 2)));
static void vf_sample(const char *fmt, ...)
{
    vf_wshared *s = &vf_g.sh[vf_g.wid];
    if (s->nsample >= VF_NSAMPLE) return;
    va_list ap;
    va_start(ap, fmt);
    vsnprintf(s->sample[s->nsample], VF_SAMPLE_SZ, fmt, ap);
    va_end(ap);
    s->nsample++;
}
static inline bool vf_want_sample(void) { return vf_g.sh[vf_g.wid].nsample < VF_NSAMPLE; }

/* ---------------------------------------------------------- violations */
static void vf_mkdirs(const char *prop)
{
    char p[256];
    snprintf(p, sizeof p, "%s/replays", VF_ROOT); mkdir(p, 0777);
    snprintf(p, sizeof p, "%s/replays/%s", VF_ROOT, prop); mkdir(p, 0777);
}
/* Writes the replay text to replays/<prop>/<check>-<hash>.replay and records the
 * signature. Safe to call from the fatal handler (no heap use). */
static void vf_violation_raw(const char *sig, const char *text, size_t tlen)
{
    vf_wshared *s = &vf_g.sh[vf_g.wid];
    s->nviol++;
    int k;
    for (k = 0; k < s->nsig; k++) if (strncmp(s->v[k].sig, sig, sizeof s->v[k].sig - 1) == 0) break;
    if (k == s->nsig) {
        if (s->nsig == VF_MAXSIG) { s->v[VF_MAXSIG - 1].count++; return; }
        s->nsig++;
        memset(&s->v[k], 0, sizeof s->v[k]);
        snprintf(s->v[k].sig, sizeof s->v[k].sig, "%s", sig);
    }
    s->v[k].count++;
    if (s->v[k].count > 1) return;            /* one replay per signature and worker */
    uint64_t h = vf_mix(vf_hash_bytes(VF_HASH_INIT, text, tlen));
    snprintf(s->v[k].path, sizeof s->v[k].path, "%s/replays/%s/%s-%016llx.replay", VF_ROOT, vf_g.prop, vf_g.check,
             (unsigned long long) h);
    int fd = open(s->v[k].path, O_WRONLY | O_CREAT | O_TRUNC, 0666);
    if (fd >= 0) {
        size_t off = 0;
        while (off < tlen) { ssize_t r = write(fd, text + off, tlen - off); if (r <= 0) break; off += (size_t) r; }
        close(fd);
    }
}
/* text = "key: value" lines describing the failing case (driver specific);
 * the common header lines are added here. */
static void vf_violation(const char *sig, const char *body)
{
    static vf_str t;
    vf_str_reset(&t);
    vf_str_printf(&t, "check: %s\nproperty: %s\nsignature: %s\n%s", vf_g.check, vf_g.prop, sig, body);
    vf_violation_raw(sig, t.s, t.n);
}

/* ----------------------------------------------- fatal outcome capture */
static void (*vf_fatal_describe)(vf_str *out);     /* set by the driver */
static char vf_fatal_buf[1 << 21];
static volatile sig_atomic_t vf_fatal_entered;
static const char *vf_fatal_kind = "signal";

static void vf_fatal_report(const char *kind, int signo)
{
    if (vf_fatal_entered) _exit(3);
    vf_fatal_entered = 1;
    vf_str t = { vf_fatal_buf, 0, sizeof vf_fatal_buf };
    char sig[200];
    snprintf(sig, sizeof sig, "fatal:%s%s%s", kind, signo ? ":" : "", signo ? strsignal(signo) : "");
    vf_str_printf(&t, "check: %s\nproperty: %s\nsignature: %s\n", vf_g.check, vf_g.prop, sig);
    if (vf_fatal_describe && t.n + 65536 < t.cap) vf_fatal_describe(&t);
    if (vf_g.sh) vf_violation_raw(sig, t.s, t.n);
    _exit(3);
}
static void vf_sig_handler(int signo)
{
    vf_fatal_report(vf_fatal_kind, signo);
}
static uint64_t vf_wd_last;
static int vf_wd_stuck;
static void vf_wd_handler(int signo)
{
    (void) signo;
    if (vf_progress == vf_wd_last) {
        if (++vf_wd_stuck >= 2) vf_fatal_report("hang(no call returned within 4 CPU-seconds)", 0);
    } else {
        vf_wd_stuck = 0;
        vf_wd_last = vf_progress;
    }
}
/* Sanitizer options compiled into every checker (the environment may still override them): a report aborts,
 * so that it reaches vf_sig_handler; the runtimes do not install their own handlers for the signals we take. */
const char *__asan_default_options(void);
const char *__asan_default_options(void)
{
    return "abort_on_error=1:detect_leaks=0:handle_segv=0:handle_abort=0:handle_sigbus=0:handle_sigfpe=0:handle_sigill=0:allocator_may_return_null=1";
}
const char *__ubsan_default_options(void);
const char *__ubsan_default_options(void) { return "abort_on_error=1:print_stacktrace=0"; }
/* sanitizer runtimes call this just before dying (both ASan and UBSan) */
void __sanitizer_set_death_callback(void (*cb)(void)) __attribute__((weak));
static void vf_san_death(void) { vf_fatal_report("sanitizer", 0); }

static void vf_install_fatal(void)
{
    struct sigaction sa;
    memset(&sa, 0, sizeof sa);
    sa.sa_handler = vf_sig_handler;
    sigemptyset(&sa.sa_mask);
    static char altstack[1 << 16];
    stack_t ss = { altstack, 0, sizeof altstack };
    sigaltstack(&ss, NULL);
    sa.sa_flags = SA_ONSTACK;
    sigaction(SIGSEGV, &sa, NULL);
    sigaction(SIGBUS, &sa, NULL);
    sigaction(SIGFPE, &sa, NULL);
    sigaction(SIGILL, &sa, NULL);
    sigaction(SIGABRT, &sa, NULL);
    if (__sanitizer_set_death_callback) __sanitizer_set_death_callback(vf_san_death);
    sa.sa_handler = vf_wd_handler;
    sigaction(SIGVTALRM, &sa, NULL);
    struct itimerval it = { { 2, 0 }, { 2, 0 } };
    setitimer(ITIMER_VIRTUAL, &it, NULL);
}

/* ------------------------------------------------------------ options */
static void vf_main_init(int argc, char **argv, const char *check, const char *const *ctr_names)
{
    memset(&vf_g, 0, sizeof vf_g);
    vf_g.check = check;
    vf_g.ctr_names = ctr_names;
    snprintf(vf_g.tier, sizeof vf_g.tier, "quick");
    vf_g.workers = 16;
    const char *e;
    if ((e = getenv("VERIF_SEED"))) vf_g.seed = atol(e);      /* recorded, never used: nothing is sampled */
    if ((e = getenv("VERIF_WORKERS"))) vf_g.workers = atoi(e);
    for (int i = 1; i < argc; i++) {
        if (!strcmp(argv[i], "--prop") && i + 1 < argc) snprintf(vf_g.prop, sizeof vf_g.prop, "%s", argv[++i]);
        else if (!strcmp(argv[i], "--tier") && i + 1 < argc) snprintf(vf_g.tier, sizeof vf_g.tier, "%s", argv[++i]);
        else if (!strcmp(argv[i], "--replay") && i + 1 < argc) vf_g.replay = argv[++i];
        else if (!strcmp(argv[i], "--workers") && i + 1 < argc) vf_g.workers = atoi(argv[++i]);
        else if (!strcmp(argv[i], "-v")) vf_g.verbose = 1;
        else vf_die("unknown argument %s", argv[i]);
    }
    if (strcmp(vf_g.tier, "quick") && strcmp(vf_g.tier, "thorough")) vf_die("tier must be quick or thorough");
    vf_g.thorough = !strcmp(vf_g.tier, "thorough");
    if (vf_g.workers < 1) vf_g.workers = 1;
    if (vf_g.workers > VF_MAXW) vf_g.workers = VF_MAXW;
    if (vf_g.replay) vf_g.workers = 1;
    if (!vf_g.prop[0]) vf_die("--prop required");
    vf_g.t0 = vf_now();
    double limit = vf_g.thorough ? 1500.0 : 100.0;
    if ((e = getenv("VERIF_DEADLINE_S"))) limit = atof(e);
    vf_g.deadline = vf_g.t0 + limit;
    vf_g.W = vf_g.workers;
    vf_g.sh = (vf_wshared *) mmap(NULL, sizeof(vf_wshared) * VF_MAXW, PROT_READ | PROT_WRITE, MAP_SHARED | MAP_ANONYMOUS, -1, 0);
    if (vf_g.sh == MAP_FAILED) vf_die("mmap");
    vf_mkdirs(vf_g.prop);
    setvbuf(stdout, NULL, _IOLBF, 0);
}

/* Runs worker(w, W, start_index) in W forked processes. A worker that dies of
 * a fatal outcome (exit 3: replay already written) is restarted just after
 * the enumeration index it died on, so one crash does not hide the rest of
 * its partition. Returns the number of fatal deaths. */
static pid_t vf_spawn(void (*worker)(int w, int W, uint64_t start), int w, uint64_t start)
{
    pid_t p = fork();
    if (p < 0) vf_die("fork: %s", strerror(errno));
    if (p == 0) {
        vf_g.wid = w;
        vf_fatal_entered = 0;
        /* sanitizer reports and other stderr noise of the workers go to a log, not to the verdict stream */
        char lp[256];
        snprintf(lp, sizeof lp, "%s/build/logs", VF_ROOT); mkdir(lp, 0777);
        snprintf(lp, sizeof lp, "%s/build/logs/%s-%s.worker%d.stderr", VF_ROOT, vf_g.check, vf_g.prop, w);
        int lfd = open(lp, O_WRONLY | O_CREAT | (start ? O_APPEND : O_TRUNC), 0666);
        if (lfd >= 0) { dup2(lfd, 2); close(lfd); }
        vf_install_fatal();
        double tw = vf_now();
        worker(w, vf_g.W, start);
        vf_g.sh[w].finished = 1;
        fprintf(stderr, "worker %d finished after %.1f s\n", w, vf_now() - tw);
        fflush(NULL);
        _exit(0);
    }
    return p;
}
static int vf_run_workers(void (*worker)(int w, int W, uint64_t start))
{
    int W = vf_g.W;
    pid_t pid[VF_MAXW];
    int deaths = 0;
    fflush(NULL);
    for (int w = 0; w < W; w++) pid[w] = vf_spawn(worker, w, 0);
    int live = W;
    while (live > 0) {
        int st;
        pid_t p = wait(&st);
        if (p < 0) { if (errno == EINTR) continue; break; }
        int w;
        for (w = 0; w < W; w++) if (pid[w] == p) break;
        if (w == W) continue;
        live--;
        int code = WIFEXITED(st) ? WEXITSTATUS(st) : 128 + WTERMSIG(st);
        if (code == 0) continue;
        if (code == VF_EXIT_HARNESS) vf_die("worker %d reported a harness error, see %s/build/logs/%s-%s.worker%d.stderr", w, VF_ROOT, vf_g.check, vf_g.prop, w);
        /* fatal outcome inside the code under test */
        deaths++;
        if (code != 3) {
            /* died without passing through our handler (e.g. SIGKILL) */
            int sw = vf_g.wid;
            vf_g.wid = w;
            char body[256];
            snprintf(body, sizeof body, "note: worker died with status %d at enumeration index %llu without a report\n", code,
                     (unsigned long long) vf_g.sh[w].cur_index);
            vf_violation("fatal:unreported-death", body);
            vf_g.wid = sw;
        }
        if (vf_g.respawns < 40 && !vf_g.replay) {
            vf_g.respawns++;
            live++;
            pid[w] = vf_spawn(worker, w, vf_g.sh[w].cur_index + 1);
        }
    }
    return deaths;
}

/* ------------------------------------------------------- known findings */
typedef struct { char prop[16]; char sig[200]; char text[400]; } vf_known;
static vf_known vf_kn[64];
static int vf_nkn;
static void vf_load_known(void)
{
    char path[256];
    snprintf(path, sizeof path, "%s/known_findings.txt", VF_ROOT);
    FILE *f = fopen(path, "r");
    if (!f) return;
    char line[1024];
    while (fgets(line, sizeof line, f)) {
        if (strncmp(line, "finding:", 8)) continue;     /* "fixed:" lines suppress nothing */
        char *p = strstr(line, "property="), *s = strstr(line, "sig=");
        if (!p || !s || vf_nkn == 64) continue;
        vf_known *k = &vf_kn[vf_nkn];
        memset(k, 0, sizeof *k);
        sscanf(p + 9, "%15s", k->prop);
        s += 4;
        size_t l = strcspn(s, " \t\n");
        if (l >= sizeof k->sig) l = sizeof k->sig - 1;
        memcpy(k->sig, s, l);
        char *d = strstr(s, " -- ");
        snprintf(k->text, sizeof k->text, "%s", d ? d + 4 : "");
        k->text[strcspn(k->text, "\n")] = 0;
        vf_nkn++;
    }
    fclose(f);
}
static const vf_known *vf_is_known(const char *prop, const char *sig)
{
    for (int i = 0; i < vf_nkn; i++) if (!strcmp(vf_kn[i].prop, prop) && !strcmp(vf_kn[i].sig, sig)) return &vf_kn[i];
    return NULL;
}

/* ------------------------------------------------------------- evidence */
typedef struct {
    int         c_states, c_transitions, c_validated;   /* counter indices for the schema keys */
    const char *bound;          /* human description of the bound explored */
    const char *rule;           /* how cases are enumerated */
    const char *extra_json;     /* optional: further "key": value pairs for coverage (no leading comma) */
    const char *const *assumptions;
    int         nassumptions;
    /* vacuity guards: counters that must be non-zero for the run to mean anything */
    const int  *must_be_nonzero;
    int         n_must;
} vf_evidence_spec;

/* Merges the workers, prints KNOWN-FINDING / VIOLATION lines, writes the
 * evidence file, returns the process exit code. */
static int vf_finish(const vf_evidence_spec *es, int deaths)
{
    uint64_t tot[VF_NCTR];
    memset(tot, 0, sizeof tot);
    uint64_t nviol = 0, digest = 0;
    int cap = 0, unfinished = 0;
    for (int w = 0; w < vf_g.W; w++) {
        vf_wshared *s = &vf_g.sh[w];
        for (int c = 0; c < VF_NCTR; c++) {
            if (vf_g.ctr_names[c] && !strncmp(vf_g.ctr_names[c], "max_", 4)) { if (tot[c] < s->ctr[c]) tot[c] = s->ctr[c]; }
            else tot[c] += s->ctr[c];
        }
        nviol += s->nviol;
        digest += s->digest;
        cap |= (int) s->cap_hit;
        if (!s->finished) unfinished++;
    }
    vf_load_known();
    int unknown = 0, printed = 0;
    uint64_t known_hits = 0;
    /* merge signatures across workers */
    for (int w = 0; w < vf_g.W; w++) {
        vf_wshared *s = &vf_g.sh[w];
        for (int k = 0; k < s->nsig; k++) {
            const vf_known *kn = vf_is_known(vf_g.prop, s->v[k].sig);
            bool first = true;
            for (int w2 = 0; w2 < w && first; w2++)
                for (int k2 = 0; k2 < vf_g.sh[w2].nsig; k2++)
                    if (!strcmp(vf_g.sh[w2].v[k2].sig, s->v[k].sig)) { first = false; break; }
            if (kn) {
                known_hits += s->v[k].count;
                if (first) printf("KNOWN-FINDING: property=%s %s [sig=%s]\n", vf_g.prop, kn->text, kn->sig);
            } else {
                unknown++;
                if (first || printed < 8) {
                    printf("VIOLATION property=%s replay=%s\n", vf_g.prop, s->v[k].path);
                    printf("  signature: %s (x%llu in worker %d)\n", s->v[k].sig, (unsigned long long) s->v[k].count, w);
                    printed++;
                }
            }
        }
    }
    int rc = unknown ? VF_EXIT_VIOLATION : VF_EXIT_OK;
    /* vacuity guards */
    if (!unknown && !cap && !vf_g.replay) {
        for (int i = 0; i < es->n_must; i++) {
            int c = es->must_be_nonzero[i];
            if (tot[c] == 0) vf_die("vacuous run: counter '%s' is zero", vf_g.ctr_names[c]);
        }
    }
    if (unfinished && !deaths) vf_die("%d worker(s) ended without finishing", unfinished);
    double wall = vf_now() - vf_g.t0;
    if (vf_g.replay) return rc;

    vf_str j = { 0 };
    vf_str_printf(&j, "{\n \"property_id\": \"%s\",\n \"tier\": \"%s\",\n \"seed\": %ld,\n \"level\": \"model_checking\",\n", vf_g.prop,
                  vf_g.tier, vf_g.seed);
    vf_str_printf(&j, " \"coverage\": {\n");
    uint64_t st = tot[es->c_states], tr = tot[es->c_transitions], va = tot[es->c_validated];
    vf_str_printf(&j, "  \"states\": %llu,\n  \"transitions\": %llu,\n  \"traces_validated_against_impl\": %llu,\n",
                  (unsigned long long) (st ? st : 1), (unsigned long long) (tr ? tr : 1), (unsigned long long) va);
    vf_str_printf(&j, "  \"exhaustive\": %s,\n  \"cap_hit\": %s,\n", (cap || deaths) ? "false" : "true", cap ? "true" : "false");
    vf_str_printf(&j, "  \"bound\": "); vf_str_json(&j, es->bound ? es->bound : ""); vf_str_printf(&j, ",\n");
    vf_str_printf(&j, "  \"rule\": "); vf_str_json(&j, es->rule ? es->rule : ""); vf_str_printf(&j, ",\n");
    vf_str_printf(&j, "  \"outcome_digest\": \"%016llx\",\n", (unsigned long long) digest);
    vf_str_printf(&j, "  \"counters\": {");
    int firstc = 1;
    for (int c = 0; c < VF_NCTR; c++) {
        if (!vf_g.ctr_names[c]) continue;
        vf_str_printf(&j, "%s\n   \"%s\": %llu", firstc ? "" : ",", vf_g.ctr_names[c], (unsigned long long) tot[c]);
        firstc = 0;
    }
    vf_str_printf(&j, "\n  },\n");
    if (es->extra_json && es->extra_json[0]) vf_str_printf(&j, "  %s,\n", es->extra_json);
    vf_str_printf(&j, "  \"samples\": [");
    int ns = 0;
    for (int w = 0; w < vf_g.W && ns < 6; w++)
        for (int k = 0; k < vf_g.sh[w].nsample && ns < 6; k++) {
            vf_str_printf(&j, "%s\n   ", ns ? "," : "");
            vf_str_json(&j, vf_g.sh[w].sample[k]);
            ns++;
        }
    if (!ns) { vf_str_printf(&j, "\n   \"(no sample recorded)\""); }
    vf_str_printf(&j, "\n  ],\n  \"workers\": %d,\n  \"fatal_worker_deaths\": %d,\n  \"known_findings_matched\": %llu\n },\n", vf_g.W, deaths,
                  (unsigned long long) known_hits);
    vf_str_printf(&j, " \"assumptions\": [");
    for (int i = 0; i < es->nassumptions; i++) { vf_str_printf(&j, "%s\n  ", i ? "," : ""); vf_str_json(&j, es->assumptions[i]); }
    vf_str_printf(&j, "\n ],\n \"wall_s\": %.2f,\n \"violations\": %llu\n}\n", wall, (unsigned long long) (nviol - known_hits));
    char path[256];
    snprintf(path, sizeof path, "%s/evidence", VF_ROOT); mkdir(path, 0777);
    snprintf(path, sizeof path, "%s/evidence/%s.json", VF_ROOT, vf_g.prop);
    if (getenv("VERIF_EVIDENCE_DIR")) snprintf(path, sizeof path, "%s/%s.json", getenv("VERIF_EVIDENCE_DIR"), vf_g.prop);   /* scratch runs on other trees */
    if (getenv("VERIF_EVIDENCE_OUT")) snprintf(path, sizeof path, "%s", getenv("VERIF_EVIDENCE_OUT"));    /* secondary build variants of one check */
    FILE *f = fopen(path, "w");
    if (!f) vf_die("cannot write %s", path);
    fwrite(j.s, 1, j.n, f);
    fclose(f);
    printf("%s %s %s: states=%llu transitions=%llu validated=%llu violations=%llu known=%llu exhaustive=%s wall=%.1fs\n", vf_g.check,
           vf_g.prop, vf_g.tier, (unsigned long long) st, (unsigned long long) tr, (unsigned long long) va,
           (unsigned long long) (nviol - known_hits), (unsigned long long) known_hits, (cap || deaths) ? "false" : "true", wall);
    if (vf_g.verbose)
        for (int c = 0; c < VF_NCTR; c++) if (vf_g.ctr_names[c]) printf("  %-40s %llu\n", vf_g.ctr_names[c], (unsigned long long) tot[c]);
    vf_str_free(&j);
    return rc;
}

/* ------------------------------------------------------ replay file read */
typedef struct { char *text; } vf_replay_file;
static char *vf_replay_load(const char *path)
{
    FILE *f = fopen(path, "r");
    if (!f) vf_die("cannot open replay file %s", path);
    fseek(f, 0, SEEK_END);
    long n = ftell(f);
    fseek(f, 0, SEEK_SET);
    char *t = (char *) vf_xmalloc((size_t) n + 2);
    if (fread(t, 1, (size_t) n, f) != (size_t) n) vf_die("short read on %s", path);
    t[n] = '\n'; t[n + 1] = 0;
    fclose(f);
    return t;
}
/* returns pointer to the value of "key: " (up to end of line, NUL terminated copy) or NULL */
static char *vf_replay_get(const char *text, const char *key)
{
    size_t kl = strlen(key);
    const char *p = text;
    while (*p) {
        const char *e = strchr(p, '\n');
        if (!e) break;
        if (!strncmp(p, key, kl) && p[kl] == ':' && p[kl + 1] == ' ') {
            size_t l = (size_t) (e - (p + kl + 2));
            char *v = (char *) vf_xmalloc(l + 1);
            memcpy(v, p + kl + 2, l);
            v[l] = 0;
            return v;
        }
        p = e + 1;
    }
    return NULL;
}

#endif
