#!/bin/bash
# tools/ingest_seed.sh <Cxx> <A|B> [extra check ids...]
# Confirms an independently produced property-breaking change (from /tmp/seed/<Cxx>/seed_out/<A|B>) ourselves in a
# scratch copy of /repo: patch applies, repository suite still passes, demo passes on the clean tree and fails on the
# changed tree; then runs our quick checks against the changed tree and stores everything in /verif/seeded/<Cxx>-<A|B>/.
id=$1; v=$2; shift 2; extra="$@"
src=${SEED_SRC:-/tmp/seed/$id/seed_out/$v}      # SEED_SRC: take the deliverables from another directory (second wave); <A|B> is then the name suffix
srcsub=$(basename $src)
dst=/verif/seeded/$id-$v
[ -f $src/patch.diff ] || { src=$dst; srcsub=$v; }
[ -f $src/patch.diff ] || { echo "no patch in $src"; exit 2; }
S=/tmp/vf_seed.$$; rm -rf $S; mkdir -p $S
git -C /repo archive HEAD | tar -x -C $S
mkdir -p $S/seed_out/$srcsub; cp $src/demo.* $src/build.sh $S/seed_out/$srcsub/ 2>/dev/null
# some agents wrote absolute paths of their own worktree into build.sh: make them relative to the tree under test
sed -i -E "s#/tmp/seed[0-9]*/$id/##g; s/; *echo \"exit=\\\$\?\" *\$//" $S/seed_out/$srcsub/build.sh
# demo on the clean tree
( cd $S && bash seed_out/$srcsub/build.sh > $S/demo_clean.out 2>&1 ); clean_rc=$?
( cd $S && git init -q . && git apply --whitespace=nowarn $src/patch.diff ) || { echo "patch does not apply"; rm -rf $S; exit 2; }
suite=$(/verif/tools/baseline.sh $S /tmp/vf_seed_bld.$$ | tail -1)
( cd $S && bash seed_out/$srcsub/build.sh > $S/demo_mut.out 2>&1 ); mut_rc=$?
echo "$id-$v: suite: $suite | demo clean rc=$clean_rc, changed rc=$mut_rc"
mkdir -p /tmp/vf_ev.$$ /tmp/vf_bld.$$; export VERIF_EVIDENCE_DIR=/tmp/vf_ev.$$ VERIF_BUILD=/tmp/vf_bld.$$
results=""
for p in $id $extra; do
  out=$(VERIF_REPO=$S /verif/run.sh $p quick 2>&1); rc=$?
  sigs=$(echo "$out" | grep "signature:" | sed 's/ (x.*//; s/^ *signature: //' | sort -u | head -6 | tr '\n' ';')
  echo "   $p quick on the changed tree: exit=$rc  $sigs"
  results="$results{\"check\":\"$p\",\"tier\":\"quick\",\"exit\":$rc,\"signatures\":\"$(echo $sigs | sed 's/\\\\/\\\\\\\\/g; s/"/\\"/g')\"},"
done
rm -rf /tmp/vf_ev.$$ /tmp/vf_bld.$$
mkdir -p $dst; [ "$src" = "$dst" ] || cp $src/patch.diff $src/demo.* $src/build.sh $src/NOTES.md $dst/ 2>/dev/null
sed -i -E "s#/tmp/seed[0-9]*/$id/##g" $dst/build.sh
[ "$srcsub" = "$v" ] || sed -i "s#seed_out/$srcsub/#seed_out/$v/#g" $dst/build.sh
python3 - "$id" "$v" "$dst" "$suite" "$clean_rc" "$mut_rc" "${results%,}" "$extra" <<'PYEOF'
import json, sys, re, subprocess
pid, v, dst, suite, clean_rc, mut_rc, results, extra = sys.argv[1:9]
notes = open(dst + '/NOTES.md', errors='replace').read() if __import__('os').path.exists(dst + '/NOTES.md') else ''
needs = ''
m = re.search(r'(?is)(trigger|needs|what it needs)[^\n]*\n(.{0,500})', notes)
if m: needs = ' '.join((m.group(0)).split())[:500]
meta = {
 "property": pid, "variant": v,
 "origin": "fresh sub-agent given only the property text and its own scratch worktree of /repo",
 "repo_commit": subprocess.run(["git", "-C", "/repo", "log", "--format=%h", "-1"], stdout=subprocess.PIPE, universal_newlines=True).stdout.strip(),
 "confirmed": {"patch_applies": True, "repository_suite_on_changed_tree": suite, "demo_exit_on_clean_tree": int(clean_rc), "demo_exit_on_changed_tree": int(mut_rc)},
 "needs_to_manifest": needs,
 "our_checks": json.loads("[" + results + "]"),
 "ran": "tools/ingest_seed.sh %s %s %s" % (pid, v, extra)
}
try:
    old = json.load(open(dst + '/meta.json'))
    if old.get('note'): meta['note'] = old['note']      # hand-written classification survives a re-run
except Exception: pass
json.dump(meta, open(dst + '/meta.json', 'w'), indent=1)
PYEOF
rm -rf $S /tmp/vf_seed_bld.$$
