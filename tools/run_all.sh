#!/bin/bash
# tools/run_all.sh [quick|thorough] [ids...] : runs the registered checks one after the other, prints exit code and wall time
tier=${1:-quick}; shift
ids=${@:-C01 C02 C03 C04 C05 C06 C07 C08 C09 C10 C11 C12 C13 C14 C15 C16 C17 C18}
cd /verif
for p in $ids; do
  s=$(date +%s.%N)
  out=$(./run.sh $p $tier 2>&1); rc=$?
  e=$(date +%s.%N)
  printf "%s rc=%d %.1fs  %s\n" $p $rc $(echo "$e - $s" | bc) "$(echo "$out" | grep -E "^[a-z]+ C[0-9]+ " | tail -1)"
  echo "$out" | grep -E "VIOLATION|KNOWN-FINDING|HARNESS" | head -5
done
