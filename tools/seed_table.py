#!/usr/bin/env python3
"""Regenerates section 6.1 of DESIGN.md from seeded/*/meta.json (+ first lines of NOTES.md)."""
import json, glob, os, re
rows = []
for d in sorted(glob.glob('/verif/seeded/*/')):
    m = json.load(open(d + 'meta.json'))
    notes = open(d + 'NOTES.md', errors='replace').read() if os.path.exists(d + 'NOTES.md') else ''
    diff = open(d + 'patch.diff', errors='replace').read()
    files = sorted(set(re.findall(r'^\+\+\+ b/(\S+)', diff, re.M)))
    title = ''
    for l in notes.splitlines():
        l = l.strip('# ').strip()
        if l and not l.lower().startswith('notes'):
            title = l; break
    caught = [c for c in m['our_checks'] if c['exit'] == 1]
    missed = [c for c in m['our_checks'] if c['exit'] == 0]
    sig = caught[0]['signatures'].split(';')[0] if caught else ''
    rows.append("| %s | %s | %s | %s | %s | %s |" % (os.path.basename(d.rstrip('/')), ', '.join(files), title[:110].replace('|', '/'),
                m['confirmed']['repository_suite_on_changed_tree'].replace('100% tests passed, 0 tests failed out of ', 'pass '),
                ', '.join(c['check'] for c in caught) or ('— (' + m['note'].split(':')[0] + ')' if m.get('note') else '—'), sig.replace('|', '/')[:70]))
txt = ("### 6.1 Seeded changes from independent agents\n"
       "Each change was produced by a fresh sub-agent that saw only the property text and a scratch worktree, then confirmed by\n"
       "`tools/ingest_seed.sh` in a scratch copy: patch applies, repository suite still passes, the agent's demo passes on the clean tree\n"
       "and fails on the changed tree; `our_checks` in `seeded/<id>/meta.json` records the quick checks run against the changed tree.\n"
       "%d changes, %d detected by the quick tier of a check; the others carry a note in their meta.json (outside the property's domain or scope, or detected by the thorough tier only).\n\n"
       "| seed | files | change (from the agent's notes) | repo suite | detected by (quick) | first signature |\n|-|-|-|-|-|-|\n" % (len(rows), sum(1 for r in rows if '| — ' not in r))) + "\n".join(rows) + "\n"
p = '/verif/DESIGN.md'
s = open(p).read()
marker = "### 6.1 Seeded changes from independent agents"
head = s[:s.index(marker)]
rest = s[s.index(marker):]
nxt = rest.index("\n## 7.")
open(p, 'w').write(head + txt + rest[nxt:])
print(txt[-1500:])
