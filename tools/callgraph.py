#!/usr/bin/env python3
"""C17, layer 3: exhaustive search of the compiler-emitted call graph of the two
translation units of the C library.

For every configuration (gcc -O0/-O2/-Os, with and without print support) the
sources are compiled with -fcallgraph-info=su,da -fstack-usage; the .ci files
(nodes = functions with their frame size and kind, edges = calls) of both units
are merged into one graph. Indirect calls are expanded to every function whose
address is taken anywhere in the two objects (found from the relocations).
Then, from every public entry point, a depth-first search over ALL edges:
  * a back edge is recursion                     -> violation
  * a reachable allocator / alloca               -> violation
  * a frame that is not 'static' (VLA / alloca)  -> violation
and the worst-case sum of frame sizes along any path is reported.
nm: no writable data symbol (b B d D C g G s S), undefined symbols only from
the allowed list. clang: nm and -fstack-usage qualifiers only.

usage: callgraph.py <repo> <outdir>      prints one JSON line; exit 1 + report file on violation
"""
import json, os, re, subprocess, sys

FORBIDDEN = {"malloc", "calloc", "realloc", "free", "alloca", "__builtin_alloca", "__builtin_alloca_with_align", "aligned_alloc", "posix_memalign",
             "memalign", "valloc", "mmap", "munmap", "sbrk", "brk", "strdup", "strndup", "asprintf", "vasprintf", "fopen", "fmemopen", "open_memstream",
             "__builtin_malloc", "__builtin_calloc", "__builtin_realloc", "__builtin_free", "setjmp", "longjmp", "qsort", "bsearch", "getenv", "fdopen", "tmpfile",
             "pthread_create", "dlopen", "operator new", "_Znwm", "_Znam"}
ALLOWED_UNDEF = {"memcmp", "memset", "memmove", "memcpy", "strlen", "printf", "putchar", "puts", "snprintf", "__stack_chk_fail", "_GLOBAL_OFFSET_TABLE_",
                 "__printf_chk", "__snprintf_chk", "__memmove_chk", "__memcpy_chk", "__memset_chk"}

def run(cmd, **kw):
    return subprocess.run(cmd, stdout=subprocess.PIPE, stderr=subprocess.PIPE, encoding="utf-8", errors="replace", **kw)

def short(title):
    # "/repo/src/binson_parser.c:_parse_integer" -> "_parse_integer"
    return title.rsplit(":", 1)[-1]

def parse_ci(path):
    nodes, edges = {}, []
    for line in open(path):
        line = line.strip()
        m = re.match(r'node: \{ title: "([^"]*)" label: "([^"]*)"', line)
        if m:
            title, label = m.group(1), m.group(2)
            parts = label.split("\\n")
            info = {"name": short(title), "defined": False, "bytes": 0, "kind": None, "dynobj": 0}
            for p in parts:
                mm = re.match(r"(\d+) bytes \(([^)]*)\)", p)
                if mm:
                    info["defined"] = True; info["bytes"] = int(mm.group(1)); info["kind"] = mm.group(2)
                mm = re.match(r"(\d+) dynamic objects", p)
                if mm:
                    info["dynobj"] = int(mm.group(1))
            if parts and parts[0].startswith("__builtin_"):
                info["builtin"] = parts[0]
            nodes[title] = info
            continue
        m = re.match(r'edge: \{ sourcename: "([^"]*)" targetname: "([^"]*)"(?: label: "([^"]*)")?', line)
        if m:
            edges.append((m.group(1), m.group(2), m.group(3) or ""))
    return nodes, edges

def address_taken(obj):
    """functions whose address is used other than as a direct call/jump target"""
    syms = []   # (addr, size?, name) of text symbols
    out = run(["nm", "-n", "--defined-only", obj]).stdout
    for l in out.splitlines():
        f = l.split()
        if len(f) == 3 and f[1] in "tT":
            syms.append((int(f[0], 16), f[2]))
    syms.sort()
    def func_at(off):
        cur = None
        for a, n in syms:
            if a <= off: cur = n
            else: break
        return cur
    taken = set()
    dis = run(["objdump", "-dr", "--no-show-raw-insn", obj]).stdout
    last_mn = ""
    names = {n for _, n in syms}
    for l in dis.splitlines():
        m = re.match(r"\s+[0-9a-f]+:\s+(\S+)", l)
        if m and "R_X86_64" not in l:
            last_mn = m.group(1)
            # same-section reference resolved by the assembler: lea -0x16b5(%rip),%rax  # c0 <_binson_print_cb>
            mm = re.search(r"#\s+[0-9a-f]+ <([^>+]+)>\s*$", l)
            if mm and not (last_mn.startswith("call") or last_mn.startswith("j")) and mm.group(1) in names:
                taken.add(mm.group(1))
            continue
        m = re.search(r"R_X86_64_\w+\s+(\S+)", l)
        if m:
            tgt = m.group(1)
            if last_mn.startswith("call") or last_mn.startswith("jmp") or (last_mn.startswith("j") and len(last_mn) <= 4):
                continue
            mm = re.match(r"\.text([+-])0x([0-9a-f]+)", tgt)
            if mm:
                off = int(mm.group(2), 16) * (1 if mm.group(1) == "+" else -1) + 4
                f = func_at(off)
                if f and any(a == off for a, n in syms if n == f):
                    taken.add(f)
            else:
                base = re.sub(r"[+-]0x[0-9a-f]+$", "", tgt)
                if base in names:
                    taken.add(base)
    # data relocations (function pointer tables)
    rel = run(["objdump", "-r", obj]).stdout
    sec = ""
    for l in rel.splitlines():
        m = re.match(r"RELOCATION RECORDS FOR \[(.*)\]", l)
        if m:
            sec = m.group(1); continue
        if sec.startswith(".text") or sec.startswith(".eh_frame") or sec.startswith(".debug"):
            continue
        m = re.search(r"R_X86_64_\w+\s+(\S+)", l)
        if m:
            base = re.sub(r"[+-]0x[0-9a-f]+$", "", m.group(1))
            if base in names:
                taken.add(base)
    return taken

def analyse(repo, outdir, cc, opt, with_print, problems):
    tag = "%s%s%s" % (cc, opt, "_print" if with_print else "_noprint")
    d = os.path.join(outdir, "cg_" + tag)
    os.makedirs(d, exist_ok=True)
    objs = []
    graph_nodes, graph_edges = {}, []
    taken = set()
    su_bad = []
    for tu in ("binson_parser", "binson_writer"):
        obj = os.path.join(d, tu + ".o")
        cmd = [cc, "-std=c99", opt, "-I" + os.path.join(repo, "include"), "-fstack-usage", "-c", os.path.join(repo, "src", tu + ".c"), "-o", obj]
        if cc == "gcc":
            cmd.insert(3, "-fcallgraph-info=su,da")
        if with_print:
            cmd.insert(3, "-DBINSON_PARSER_WITH_PRINT")
        r = run(cmd)
        if r.returncode != 0:
            problems.append("%s: compile failed: %s" % (tag, r.stderr[:300])); return None
        objs.append(obj)
        # stack usage qualifiers
        su = os.path.join(d, tu + ".su")
        for l in open(su):
            f = l.rstrip("\n").split("\t")
            if len(f) >= 3 and f[2] != "static":
                su_bad.append("%s %s" % (f[0], f[2]))
        if cc == "gcc":
            n, e = parse_ci(os.path.join(d, tu + ".ci"))
            for t, info in n.items():
                k = info["name"]
                if k not in graph_nodes or info["defined"]:
                    graph_nodes[k] = info
            graph_edges += [(short(a), short(b), lab) for a, b, lab in e]
        taken |= address_taken(obj)
    for b in su_bad:
        problems.append("%s: frame is not static (variable-size stack object): %s" % (tag, b))
    # nm checks
    data_syms, undef = [], set()
    other_libc = set()
    for obj in objs:
        for l in run(["nm", obj]).stdout.splitlines():
            f = l.split()
            if len(f) == 3 and f[1] in "bBdDCgGsS":
                data_syms.append("%s:%s(%s)" % (os.path.basename(obj), f[2], f[1]))
            if len(f) == 2 and f[0] == "U":
                undef.add(f[1])
    for s in data_syms:
        problems.append("%s: writable static data symbol %s" % (tag, s))
    defined_anywhere = set()
    for obj in objs:
        for l in run(["nm", "--defined-only", obj]).stdout.splitlines():
            f = l.split()
            if len(f) == 3: defined_anywhere.add(f[2])
    for u in sorted(undef):
        if u in FORBIDDEN:
            problems.append("%s: the library references the allocator / forbidden symbol %s" % (tag, u))
        elif u not in ALLOWED_UNDEF and u not in defined_anywhere:
            other_libc.add(u)       # informational: a libc function outside the usual set; only allocators and their kin are violations
    res = {"config": tag, "undefined": sorted(undef - defined_anywhere), "other_libc": sorted(other_libc), "data_symbols": len(data_syms), "address_taken": sorted(taken)}
    if cc != "gcc":
        return res
    # ---- graph search
    adj = {}
    for a, b, lab in graph_edges:
        adj.setdefault(a, set())
        if b == "__indirect_call":
            for t in taken: adj[a].add(t)
        else:
            adj[a].add(b)
    entries = sorted(k for k, v in graph_nodes.items() if v["defined"] and k.startswith("binson_"))
    for k, v in graph_nodes.items():
        if v["defined"] and (v["kind"] != "static" or v["dynobj"] != 0):
            problems.append("%s: function %s has a %s frame with %d dynamic objects" % (tag, k, v["kind"], v["dynobj"]))
    worst = {}
    state = {}
    visited_edges = 0
    def dfs(u, path):
        nonlocal visited_edges
        state[u] = 1
        best = 0
        for v in sorted(adj.get(u, ())):
            visited_edges += 1
            name = v
            info = graph_nodes.get(v, {})
            b = info.get("builtin", "")
            if name in FORBIDDEN or b in FORBIDDEN:
                problems.append("%s: allocator / forbidden function %s reachable: %s" % (tag, name, " -> ".join(path + [v])))
                continue
            if not info.get("defined"):
                continue            # libc: outside the library
            if state.get(v) == 1:
                problems.append("%s: recursion: %s" % (tag, " -> ".join(path + [v])))
                continue
            if state.get(v) == 2:
                best = max(best, worst[v]); continue
            best = max(best, dfs(v, path + [v]))
        state[u] = 2
        worst[u] = graph_nodes[u]["bytes"] + best
        return worst[u]
    for e in entries:
        if state.get(e) is None:
            dfs(e, [e])
    res.update({"functions": sum(1 for v in graph_nodes.values() if v["defined"]), "edges": len(graph_edges), "edges_searched": visited_edges,
                "entry_points": len(entries), "worst_path_stack_bytes": max(worst[e] for e in entries) if entries else 0,
                "worst_entry": max(entries, key=lambda e: worst[e]) if entries else None})
    return res

MACRO_PROBE = r"""
#include "binson_light.h"
extern void use(binson_parser *);
/* the public definition macros that promise an AUTOMATIC parser must not create static storage in the caller */
void probe_def(void) { BINSON_PARSER_DEF(p); use(&p); }
void probe_def_depth(void) { BINSON_PARSER_DEF_DEPTH(q, 3); use(&q); }
void probe_init_macro(void) { binson_parser r = BINSON_PARSER(4); use(&r); }
"""

def macro_probe(repo, outdir, problems):
    d = os.path.join(outdir, "cg_macro_probe")
    os.makedirs(d, exist_ok=True)
    src = os.path.join(d, "probe.c")
    open(src, "w").write(MACRO_PROBE)
    res = []
    for cc in ("gcc", "clang"):
        obj = os.path.join(d, "probe_%s.o" % cc)
        r = run([cc, "-std=c99", "-O1", "-I" + os.path.join(repo, "include"), "-DBINSON_PARSER_WITH_PRINT", "-c", src, "-o", obj])
        if r.returncode != 0:
            problems.append("macro probe: compile failed with %s: %s" % (cc, r.stderr[:300])); continue
        bad = []
        for l in run(["nm", obj]).stdout.splitlines():
            f = l.split()
            if len(f) == 3 and f[1] in "bBdDCgGsS":
                bad.append("%s(%s)" % (f[2], f[1]))
        for b in bad:
            problems.append("macro probe (%s): a parser defined with BINSON_PARSER_DEF / BINSON_PARSER_DEF_DEPTH / BINSON_PARSER() inside a function has static storage: %s" % (cc, b))
        res.append("%s:%d" % (cc, len(bad)))
    return res

def main():
    repo, outdir = sys.argv[1], sys.argv[2]
    problems, results = [], []
    probe = macro_probe(repo, outdir, problems)
    for cc in ("gcc", "clang"):
        for opt in ("-O0", "-O2", "-Os"):
            for wp in (True, False):
                r = analyse(repo, outdir, cc, opt, wp, problems)
                if r: results.append(r)
    summary = {"configurations": len(results), "violations": len(problems), "definition_macro_probe_static_symbols": probe,
               "graphs": [{k: r[k] for k in ("config", "functions", "edges", "edges_searched", "entry_points", "worst_path_stack_bytes", "worst_entry", "address_taken") if k in r} for r in results if "functions" in r],
               "nm_only": [r["config"] for r in results if "functions" not in r], "other_libc_symbols": sorted(set(s for r in results for s in r.get("other_libc", [])))}
    print(json.dumps(summary))
    if problems:
        rep = os.path.join(outdir, "callgraph_violations.txt")
        with open(rep, "w") as f:
            f.write("check: footprint\nproperty: C17\nsignature: footprint:callgraph\n")
            for p in problems: f.write("mismatch: " + p + "\n")
        sys.stderr.write("\n".join(problems[:20]) + "\n")
        sys.exit(1)

if __name__ == "__main__":
    main()
