#!/bin/bash
# tools/try_benign.sh <patch.diff> [ids...] : a property-PRESERVING change must not make any check raise an alarm.
# Applies the patch to a scratch copy of /repo, runs the repository suite and the quick tier of the given checks
# (default: all 18) against the copy, with private build / evidence directories. Prints only what needs attention.
patch=$(readlink -f "$1"); shift
ids=${@:-C01 C02 C03 C04 C05 C06 C07 C08 C09 C10 C11 C12 C13 C14 C15 C16 C17 C18}
S=/tmp/vf_ben.$$; rm -rf $S; mkdir -p $S
git -C /repo archive HEAD | tar -x -C $S
( cd $S && git init -q . && git apply --whitespace=nowarn "$patch" ) || { echo "patch does not apply: $patch"; rm -rf $S; exit 2; }
suite=$(/verif/tools/baseline.sh $S /tmp/vf_ben_bld.$$ | tail -1)
echo "== $patch : repository suite: $suite"
mkdir -p /tmp/vf_ev.$$ /tmp/vf_bld.$$; export VERIF_EVIDENCE_DIR=/tmp/vf_ev.$$ VERIF_BUILD=/tmp/vf_bld.$$
alarms=0
for p in $ids; do
  out=$(VERIF_REPO=$S /verif/run.sh $p quick 2>&1); rc=$?
  if [ $rc -ne 0 ]; then
    alarms=$((alarms+1))
    echo "   ALARM $p exit=$rc"
    echo "$out" | grep -E "signature|HARNESS|VIOLATION" | sed 's/ (x.*//' | sort -u | head -6 | sed 's/^/      /'
    mkdir -p /tmp/benign_alarms; for f in $(echo "$out" | grep -o "replay=[^ ]*" | sed 's/replay=//' | head -2); do cp $f /tmp/benign_alarms/$(basename $(dirname $patch))_$(basename $patch .diff)_$p_$(basename $f) 2>/dev/null; done
  fi
done
echo "   alarms: $alarms"
rm -rf $S /tmp/vf_ben_bld.$$ /tmp/vf_ev.$$ /tmp/vf_bld.$$
