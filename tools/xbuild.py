#!/usr/bin/env python3
"""C18: build the scenario-digest programs in every configuration, run them, compare the digests.
usage: xbuild.py <repo> <verif> <tier>
Writes <verif>/evidence/C18.json, prints VIOLATION / summary lines, exit 0/1/2."""
import json, os, subprocess, sys, time, hashlib
from concurrent.futures import ThreadPoolExecutor

def sh(cmd, **kw):
    return subprocess.run(cmd, stdout=subprocess.PIPE, stderr=subprocess.PIPE, encoding="utf-8", errors="replace", **kw)

def main():
    repo, verif, tier = sys.argv[1], sys.argv[2], sys.argv[3]
    t0 = time.time()
    B = os.path.join(sys.argv[4] if len(sys.argv) > 4 else os.path.join(verif, "build"), "xbuild")
    os.makedirs(B, exist_ok=True)
    inc = ["-I" + os.path.join(repo, "include"), "-DBINSON_PARSER_WITH_PRINT", "-DVF_ROOT=\"%s\"" % verif]
    cfgs = []
    for cc, cxx in (("gcc", "g++"), ("clang", "clang++")):
        for opt in ("-O0", "-O2", "-Os"):
            for ch in ("-fsigned-char", "-funsigned-char"):
                cfgs.append((cc, cxx, [opt, ch], "%s%s%s" % (cc, opt, ch)))
        cfgs.append((cc, cxx, ["-O1", "-fsanitize=address,undefined", "-fno-sanitize=pointer-overflow", "-fno-sanitize-recover=undefined"], "%s-asan-ubsan" % cc))
    if tier == "thorough":
        for cc, cxx in (("gcc", "g++"), ("clang", "clang++")):
            cfgs.append((cc, cxx, ["-O3", "-fstrict-aliasing", "-funsigned-char"], "%s-O3-strict-aliasing" % cc))
            cfgs.append((cc, cxx, ["-O2", "-fno-strict-aliasing", "-fwrapv"], "%s-O2-no-strict-aliasing-wrapv" % cc))
            cfgs.append((cc, cxx, ["-O2", "-m32"] , "%s-O2-m32" % cc))
    def build(c):
        cc, cxx, flags, tag = c
        d = os.path.join(B, tag)
        os.makedirs(d, exist_ok=True)
        objs = []
        for tu in ("binson_parser", "binson_writer"):
            o = os.path.join(d, tu + ".o")
            r = sh([cc, "-std=c99"] + flags + inc + ["-c", os.path.join(repo, "src", tu + ".c"), "-o", o])
            if r.returncode: return tag, None, r.stderr
            objs.append(o)
        exe = os.path.join(d, "obsdigest")
        r = sh([cc, "-std=gnu11"] + flags + inc + ["-Wno-format-truncation", os.path.join(verif, "checks", "obsdigest.c")] + objs + ["-o", exe, "-lm"])
        if r.returncode: return tag, None, r.stderr
        o = os.path.join(d, "binson.o")
        r = sh([cxx, "-std=c++11"] + flags + inc + ["-c", os.path.join(repo, "src", "binson.cpp"), "-o", o])
        if r.returncode: return tag, None, r.stderr
        exe2 = os.path.join(d, "obsdigest_cxx")
        r = sh([cxx, "-std=c++11"] + flags + inc + ["-Wno-write-strings", os.path.join(verif, "checks", "obsdigest_cxx.cpp"), o] + objs + ["-o", exe2])
        if r.returncode: return tag, None, r.stderr
        return tag, (exe, exe2), ""
    with ThreadPoolExecutor(16) as ex:
        built = list(ex.map(build, cfgs))
    skipped = []
    exes = {}
    for tag, e, err in built:
        if e is None:
            if "-m32" in tag:
                skipped.append(tag + " (no 32-bit runtime in this image)")
                continue
            print("HARNESS-ERROR: build of configuration %s failed: %s" % (tag, err[:400])); sys.exit(2)
        exes[tag] = e
    env = dict(os.environ, ASAN_OPTIONS="detect_leaks=0:abort_on_error=1", UBSAN_OPTIONS="abort_on_error=1")
    def runone(tag):
        out = []
        for exe in exes[tag]:
            r = sh([exe], env=env)
            if r.returncode != 0:
                return tag, None, "exit %d: %s" % (r.returncode, r.stderr[-600:])
            out += [l for l in r.stdout.splitlines() if l.startswith("scenario ")]
        return tag, out, ""
    with ThreadPoolExecutor(16) as ex:
        runs = list(ex.map(runone, list(exes)))
    viol = []
    os.makedirs(os.path.join(verif, "replays", "C18"), exist_ok=True)
    ref_tag, ref = None, None
    table = {}
    for tag, out, err in runs:
        if out is None:
            p = os.path.join(verif, "replays", "C18", "crash-%s.replay" % tag)
            open(p, "w").write("check: xbuild\nproperty: C18\nsignature: xbuild:crash:%s\nmismatch: the scenario program of configuration %s died: %s\n" % (tag, tag, err))
            viol.append(("xbuild:crash", p)); continue
        d = {l.split()[1]: l.split()[2] for l in out}
        table[tag] = {l.split()[1]: l for l in out}
        if ref is None: ref_tag, ref = tag, d
        else:
            for scn in ref:
                if d.get(scn) != ref[scn]:
                    # locate the first differing observation
                    which = 1 if scn.startswith("cxx_") else 0
                    a = sh([exes[ref_tag][which], "--log", scn], env=env).stdout.splitlines()
                    b = sh([exes[tag][which], "--log", scn], env=env).stdout.splitlines()
                    a = [x for x in a if x.startswith("  ")]; b = [x for x in b if x.startswith("  ")]
                    k = 0
                    while k < len(a) and k < len(b) and a[k] == b[k]: k += 1
                    ctx = "\n".join("context: " + x.strip() for x in a[max(0, k - 3):k])
                    p = os.path.join(verif, "replays", "C18", "diff-%s-%s.replay" % (scn, tag))
                    open(p, "w").write("check: xbuild\nproperty: C18\nsignature: xbuild:digest-differs:%s\nscenario: %s\nconfig_a: %s\nconfig_b: %s\nobservation_index: %d\n%s\nobserved_a: %s\nobserved_b: %s\n" %
                                       (scn, scn, ref_tag, tag, k, ctx, a[k].strip() if k < len(a) else "(end)", b[k].strip() if k < len(b) else "(end)"))
                    viol.append(("xbuild:digest-differs:" + scn, p))
    known = {}
    try:
        for l in open(os.path.join(verif, "known_findings.txt")):
            if l.startswith("finding:") and "property=C18" in l and "sig=" in l:
                known[l.split("sig=")[1].split()[0]] = l.split(" -- ")[-1].strip()
    except IOError:
        pass
    unknown = 0
    seen = set()
    for sig, p in viol:
        if sig in known:
            if sig not in seen: print("KNOWN-FINDING: property=C18 %s [sig=%s]" % (known[sig], sig))
        else:
            unknown += 1
            print("VIOLATION property=C18 replay=%s\n  signature: %s" % (p, sig))
        seen.add(sig)
    states = trans = obs = 0
    samples = []
    if ref_tag and ref_tag in table:
        for scn, line in table[ref_tag].items():
            f = dict(x.split("=") for x in line.split()[3:])
            states += int(f["states"]); trans += int(f["transitions"]); obs += int(f["observations"])
            samples.append("%s: digest %s over %s observations, identical in %d build configurations" % (scn, line.split()[2], f["observations"], sum(1 for t in table if table[t].get(scn, "").split()[2:3] == line.split()[2:3])))
    ev = {"property_id": "C18", "tier": tier, "seed": int(os.environ.get("VERIF_SEED", "0") or 0), "level": "model_checking",
          "coverage": {"states": max(states, 1), "transitions": max(trans * len(table), 1), "traces_validated_against_impl": trans * len(table), "exhaustive": True,
                       "configurations": sorted(table), "configurations_skipped": skipped, "observations_per_configuration": obs, "scenarios": sorted(ref or {}),
                       "bound": "scenario spaces (each enumerated completely): verify on all hostile token sequences of <= 2 tokens (framed and unframed) x kind x depth 1..3; state graph of the 6 navigation operations on every document of <= 3 value tokens (type-directed canonical states); state graph incl. 18 lookups on every object of <= 2 fields over 9 trap names; writer: all pairs of 14 operations x 32 capacities; text: to_string at 4 capacities + print on every document of <= 2 values over 10 printable classes; integer/double boundary values through writer and parser; string / bytes / name payloads of 127..65536 bytes at 4 alignments through parser and writer; C++: serialize of every tree of <= 2 values in two insertion orders (+ toStr), deserialize outcomes on all hostile sequences of <= 2 tokens",
                       "rule": "the same exhaustive bounded exploration is executed by every build configuration; every observable is folded into a 128-bit digest per scenario; all digests must be equal",
                       "samples": samples or ["(no configuration ran)"]},
          "assumptions": ["the machine's libc renders %f identically for all builds (same libc)", "configurations that cannot be built in this image (e.g. -m32 without a 32-bit runtime) are listed as skipped"],
          "wall_s": round(time.time() - t0, 2), "violations": unknown}
    evdir = os.environ.get("VERIF_EVIDENCE_DIR") or os.path.join(verif, "evidence")
    os.makedirs(evdir, exist_ok=True)
    json.dump(ev, open(os.path.join(evdir, "C18.json"), "w"), indent=1)
    print("xbuild C18 %s: configurations=%d scenarios=%d observations/config=%d violations=%d wall=%.1fs" % (tier, len(table), len(ref or {}), obs, unknown, time.time() - t0))
    if len(table) < 12: print("HARNESS-ERROR: fewer than 12 configurations ran"); sys.exit(2)
    sys.exit(1 if unknown else 0)

main()
