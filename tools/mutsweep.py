#!/usr/bin/env python3
"""Systematic first-order mutation sweep of the C library (a machine-time-heavy, token-free way to find gaps).

For every mutation site (relational / logical / arithmetic operator swaps, boundary constants +-1, mask constants,
deleted assignment statements, swapped true/false) of src/binson_parser.c and src/binson_writer.c:
  apply it to a scratch copy of /repo, compile, run the QUICK tier of the checks (cheapest first) until one raises an
  alarm. Mutants that no check kills are SURVIVORS and are written to <outdir>/survivors/NNN.diff for triage (each is
  either an equivalent mutant or a gap in the checks).
usage: mutsweep.py <outdir> [--file parser|writer] [--start N] [--limit N]
Not part of any registered check."""
import os, re, subprocess, sys, shutil, time, json

ORDER = ["C14", "C10", "C03", "C05", "C13", "C04", "C02", "C11", "C06", "C08", "C07", "C01", "C12", "C09", "C16", "C15", "C18", "C17"]

def sh(cmd, **kw):
    return subprocess.run(cmd, stdout=subprocess.PIPE, stderr=subprocess.STDOUT, encoding="utf-8", errors="replace", **kw)

def sites(path):
    """yields (lineno, col, old, new, kind)"""
    src = open(path).read().split("\n")
    out = []
    in_comment = False
    null_block = False
    for i, line in enumerate(src):
        s = line.strip()
        # NULL-argument guards are outside every property's scope ("valid pointers"): skip the guard and its block
        if re.match(r"^(else )?if \((\(?NULL == [\w>\-]+\)?( \|\| )?)+\)", s) or re.match(r"^if \(NULL == ", s):
            null_block = "{" in s and "}" not in s
            continue
        if null_block:
            if s.startswith("}"): null_block = False
            continue
        if in_comment:
            if "*/" in s: in_comment = False
            continue
        if s.startswith("/*"):
            if "*/" not in s: in_comment = True
            continue
        if s.startswith("*") or s.startswith("//") or s.startswith("#"):
            continue
        code = line.split("/*")[0]
        # do not touch string literals
        if '"' in code:
            code_scan = re.sub(r'"[^"]*"', lambda m: " " * len(m.group(0)), code)
        else:
            code_scan = code
        pats = [
            (r"(?<![<>=!-])<=(?!=)", ["<"]), (r"(?<![<>=!-])>=(?!=)", [">"]), (r"(?<![<>=!\-])<(?![<=])", ["<="]), (r"(?<![<>=!\-])>(?![>=])", [">="]),
            (r"==", ["!="]), (r"!=", ["=="]), (r"&&", ["||"]), (r"\|\|", ["&&"]),
            (r"\+= ", ["-= "]), (r"-= ", ["+= "]), (r"\+\+", ["--"]), (r"(?<!-)--(?!>)", ["++"]),
            (r" \+ 1\b", [" - 1", " + 2"]), (r" - 1\b", [" + 1", " - 2"]), (r" \+ 2\b", [" + 1", " + 3"]),
            (r"\b0x80\b", ["0x40"]), (r"\b0x03U\b", ["0x01U"]), (r"\b0x03\b", ["0x01"]), (r"\bINT8_MAX\b", ["(INT8_MAX - 1)", "UINT8_MAX"]), (r"\bINT8_MIN\b", ["(INT8_MIN + 1)"]),
            (r"\bINT16_MAX\b", ["(INT16_MAX - 1)", "UINT16_MAX"]), (r"\bINT16_MIN\b", ["(INT16_MIN + 1)"]), (r"\bINT32_MAX\b", ["(INT32_MAX - 1)"]), (r"\bINT32_MIN\b", ["(INT32_MIN + 1)"]),
            (r"\bUINT8_MAX\b", ["(UINT8_MAX - 1)", "INT8_MAX"]), (r"\btrue\b", ["false"]), (r"\bfalse\b", ["true"]), (r"\bsizeof\(int64_t\)", ["sizeof(int32_t)"]),
            (r"\b8U?\b(?=;)", ["4"]), (r"<<= 8", ["<<= 4"]), (r">>= 8U", [">>= 4U"]), (r"\bBINSON_ERROR_NONE\b", ["BINSON_ERROR_RANGE"]),
        ]
        for pat, news in pats:
            for m in re.finditer(pat, code_scan):
                for new in news:
                    out.append((i, m.start(), m.group(0), new, "op"))
        # statement deletion: simple assignments / calls on their own line inside functions
        if re.match(r"^\s+[A-Za-z_\->\.\*\[\]\(\) ]+(=|\+=|-=|\|=|&=)[^=].*;\s*$", code) and "for (" not in code and not re.match(r"^\s+(const |static |bool |int |size_t |uint|bbuf|binson_|struct |char )", code):
            out.append((i, 0, code, "", "del"))
        if re.match(r"^\s+(memset|memmove|CLEARBITMASK|SETBITMASK)\(.*;\s*$", code):
            out.append((i, 0, code, "", "del"))
        if re.match(r"^\s+(break|return false|return true);\s*$", code):
            pass
    return src, out

def main():
    outdir = sys.argv[1]
    which = "parser"; start = 0; limit = 10 ** 9
    a = sys.argv[2:]
    while a:
        if a[0] == "--file": which = a[1]; a = a[2:]
        elif a[0] == "--start": start = int(a[1]); a = a[2:]
        elif a[0] == "--limit": limit = int(a[1]); a = a[2:]
        else: raise SystemExit("bad arg " + a[0])
    rel = "src/binson_%s.c" % which
    global ORDER
    if which == "writer": ORDER = ["C04", "C05", "C10", "C09", "C12"] + [c for c in ORDER if c not in ("C04", "C05", "C10", "C09", "C12")]
    os.makedirs(os.path.join(outdir, "survivors"), exist_ok=True)
    src, ms = sites(os.path.join("/repo", rel))
    log = open(os.path.join(outdir, "sweep_%s.log" % which), "a")
    print("%d mutation sites in %s" % (len(ms), rel), file=log, flush=True)
    S = "/tmp/vf_msw.%d" % os.getpid()
    env = dict(os.environ, VERIF_REPO=S, VERIF_BUILD="/tmp/vf_msw_bld.%d" % os.getpid(), VERIF_EVIDENCE_DIR="/tmp/vf_msw_ev.%d" % os.getpid())
    os.makedirs(env["VERIF_EVIDENCE_DIR"], exist_ok=True)
    killed = {}
    n = 0
    for idx, (ln, col, old, new, kind) in enumerate(ms):
        if idx < start or n >= limit: continue
        n += 1
        lines = list(src)
        if kind == "del": lines[ln] = re.match(r"^\s*", lines[ln]).group(0) + "/* mutant: statement deleted */"
        else: lines[ln] = lines[ln][:col] + new + lines[ln][col + len(old):]
        shutil.rmtree(S, ignore_errors=True); os.makedirs(S)
        sh("git -C /repo archive HEAD | tar -x -C %s" % S, shell=True)
        open(os.path.join(S, rel), "w").write("\n".join(lines))
        desc = "#%d %s:%d %s %r -> %r" % (idx, rel, ln + 1, kind, old.strip()[:50], new)
        r = sh(["gcc", "-std=c99", "-c", "-Wall", "-Wextra", "-Werror", "-Wno-unused-parameter", "-DBINSON_PARSER_WITH_PRINT", "-I" + S + "/include", os.path.join(S, rel), "-o", "/dev/null"])
        if r.returncode != 0:
            print(desc + " : does not compile", file=log, flush=True); continue
        t0 = time.time()
        who = None
        for c in ORDER:
            r = sh(["/verif/run.sh", c, "quick"], env=env)
            if r.returncode == 1: who = c; break
            if r.returncode == 2:
                who = c + "(harness-error)"; break
        if who:
            killed[who] = killed.get(who, 0) + 1
            print("%s : killed by %s (%.0fs)" % (desc, who, time.time() - t0), file=log, flush=True)
        else:
            d = sh(["diff", "-u", os.path.join("/repo", rel), os.path.join(S, rel)]).stdout
            open(os.path.join(outdir, "survivors", "%s_%04d.diff" % (which, idx)), "w").write(desc + "\n" + d)
            print("%s : SURVIVED all 18 quick checks (%.0fs)" % (desc, time.time() - t0), file=log, flush=True)
    print("summary: " + json.dumps(killed), file=log, flush=True)
    shutil.rmtree(S, ignore_errors=True); shutil.rmtree(env["VERIF_BUILD"], ignore_errors=True); shutil.rmtree(env["VERIF_EVIDENCE_DIR"], ignore_errors=True)

main()
