#!/bin/bash
# tools/try_mutant.sh <patch.diff> <prop> [prop...]
# Applies a patch to a scratch copy of /repo (outside /repo and /verif), runs the
# repository's own test-suite on it and then the quick checks of the given
# properties against the copy (VERIF_REPO). The copy is deleted afterwards.
# Evidence files and replays written during the run are restored / left in replays/.
patch=$(readlink -f "$1"); shift
S=/tmp/vf_mut.$$
rm -rf $S; mkdir -p $S
git -C /repo archive HEAD | tar -x -C $S
( cd $S && git init -q . && git apply --whitespace=nowarn "$patch" ) || { echo "patch does not apply"; rm -rf $S; exit 2; }
if [ "${SKIP_BASELINE:-0}" != 1 ]; then
  echo "== repository test-suite on the mutant:"
  /verif/tools/baseline.sh $S /tmp/vf_mut_bld.$$ | tail -1
fi
mkdir -p /tmp/vf_ev.$$ /tmp/vf_bld.$$; export VERIF_EVIDENCE_DIR=/tmp/vf_ev.$$ VERIF_BUILD=/tmp/vf_bld.$$
for p in "$@"; do
  echo "== $p quick on the mutant:"
  VERIF_REPO=$S /verif/run.sh $p ${TIER:-quick} 2>&1 | grep -E "VIOLATION|KNOWN|HARNESS|signature|^[a-z]+ C[0-9]+ " | head -${LINES_MAX:-8}
  echo "   exit=${PIPESTATUS[0]}"
done
rm -rf /tmp/vf_ev.$$ /tmp/vf_bld.$$
rm -rf $S /tmp/vf_mut_bld.$$
