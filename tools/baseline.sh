#!/bin/sh
# Runs the repository's own (pinned) test-suite with the verification guard OFF.
# usage: tools/baseline.sh [repo_dir] [build_dir]
# The build directory is outside the repository; it is removed afterwards.
REPO=${1:-/repo}
BLD=${2:-/verif/build/baseline.$$}
set -e
rm -rf "$BLD"; mkdir -p "$BLD"
cmake -G Ninja -S "$REPO" -B "$BLD" -DBUILD_TESTS=ON -DCMAKE_BUILD_TYPE=RelWithDebInfo -DCMAKE_C_FLAGS=-Wno-error >"$BLD/cmake.log" 2>&1 || { cat "$BLD/cmake.log"; exit 2; }
cmake --build "$BLD" -j16 >"$BLD/build.log" 2>&1 || { tail -50 "$BLD/build.log"; exit 2; }
set +e
ctest --test-dir "$BLD" -j8 --timeout 900 >"$BLD/ctest.log" 2>&1
rc=$?
tail -5 "$BLD/ctest.log"
grep -E "tests passed|tests failed" "$BLD/ctest.log"
if [ $rc -ne 0 ]; then grep -E "Failed|\*\*\*" "$BLD/ctest.log" | head -40; fi
rm -rf "$BLD"
exit $rc
