#!/bin/bash
# run.sh <property-id> <quick|thorough>     decide one property on the current /repo tree
# run.sh replay <file>                      re-execute a recorded violation without the explorer
# Environment: VERIF_REPO (default /repo) - tree to compile; VERIF_SEED - recorded only.
set -u
V=/verif
REPO=${VERIF_REPO:-/repo}
cd $V || exit 2
# sanitizer options are compiled into the checkers (__asan_default_options); do not inherit foreign ones
unset ASAN_OPTIONS UBSAN_OPTIONS

driver_of() {
  case "$1" in
    C06|C07|C11) echo nav ;;
    C01|C09|C12|C16) echo api ;;
    C02) echo verify ;;
    C08) echo stream ;;
    C03|C10|C05) echo decode ;;
    C04) echo writer ;;
    C13|C14) echo text ;;
    *) echo "" ;;
  esac
}

SANFLAGS="-fsanitize=address,undefined -fno-sanitize=pointer-overflow -fno-sanitize-recover=undefined -fno-omit-frame-pointer"

# build <driver> : compiles the library from $REPO and the driver into build/<driver>/
build() {
  local drv=$1 B=$V/build/$1
  mkdir -p $B
  local CF="-O1 -g -DBINSON_PARSER_WITH_PRINT -I$REPO/include"
  local SANFLAGS="$SANFLAGS"
  case $drv in
    verify|stream) CF="-O2 -g -DBINSON_PARSER_WITH_PRINT -I$REPO/include"; SANFLAGS="" ;;   # pure verdict comparison, 10^8 evaluations: no sanitizer
  esac
  gcc -std=c99 $CF $SANFLAGS -c $REPO/src/binson_parser.c -o $B/binson_parser.o || return 2
  gcc -std=c99 $CF $SANFLAGS -c $REPO/src/binson_writer.c -o $B/binson_writer.o || return 2
  gcc -std=gnu11 -Wall -Wno-unused-function -Wno-format-truncation $CF $SANFLAGS -DVF_ROOT=\"$V\" $V/checks/$drv.c $B/binson_parser.o $B/binson_writer.o -o $B/$drv -lm || return 2
}

if [ "${1:-}" = replay ]; then
  f=${2:?replay file}
  drv=$(sed -n 's/^check: //p' "$f" | head -1)
  prop=$(sed -n 's/^property: //p' "$f" | head -1)
  build $drv || { echo "HARNESS-ERROR: build failed"; exit 2; }
  $V/build/$drv/$drv --prop $prop --replay "$f"
  rc=$?
  # exit 3 = the code under test died (signal / sanitizer / hang) while replaying: the violation reproduces
  if [ $rc = 3 ]; then echo "VIOLATION property=$prop replay=$f"; exit 1; fi
  exit $rc
fi

prop=${1:?property id}
tier=${2:-${VERIF_TIER:-quick}}
drv=$(driver_of $prop)
[ -n "$drv" ] || { echo "HARNESS-ERROR: no check for $prop"; exit 2; }
build $drv || { echo "HARNESS-ERROR: build failed"; exit 2; }
exec $V/build/$drv/$drv --prop $prop --tier $tier
