#!/bin/bash
# run.sh <property-id> <quick|thorough>     decide one property on the current /repo tree
# run.sh replay <file>                      re-execute a recorded violation without the explorer
# Environment: VERIF_REPO (default /repo) - tree to compile; VERIF_SEED - recorded only.
set -u
V=/verif
REPO=${VERIF_REPO:-/repo}
BLD=${VERIF_BUILD:-$V/build}      # scratch runs against other trees use their own build directory
cd $V || exit 2
# sanitizer options are compiled into the checkers (__asan_default_options); do not inherit foreign ones
unset ASAN_OPTIONS UBSAN_OPTIONS

driver_of() {
  case "$1" in
    C06|C07|C11) echo nav ;;
    C01|C09|C12|C16) echo api ;;
    C02) echo verify ;;
    C08) echo stream ;;
    C03|C10|C05) echo decode ;;
    C04) echo writer ;;
    C13|C14) echo text ;;
    C15) echo cxx ;;
    C17) echo footprint ;;
    C18) echo xbuild ;;
    *) echo "" ;;
  esac
}

SANFLAGS="-fsanitize=address,undefined -fno-sanitize=pointer-overflow -fno-sanitize-recover=undefined -fno-omit-frame-pointer"

# build <driver> : compiles the library from $REPO and the driver into build/<driver>/
build() {
  local drv=$1 B=$BLD/$1
  mkdir -p $B
  local CF="-O1 -g -DBINSON_PARSER_WITH_PRINT -I$REPO/include"
  local SANFLAGS="$SANFLAGS"
  case $drv in
    verify|stream) CF="-O2 -g -DBINSON_PARSER_WITH_PRINT -I$REPO/include"; SANFLAGS="" ;;   # pure verdict comparison, 10^8 evaluations: no sanitizer
  esac
  gcc -std=c99 $CF $SANFLAGS -c $REPO/src/binson_parser.c -o $B/binson_parser.o || return 2
  gcc -std=c99 $CF $SANFLAGS -c $REPO/src/binson_writer.c -o $B/binson_writer.o || return 2
  gcc -std=gnu11 -Wall -Wno-unused-function -Wno-format-truncation $CF $SANFLAGS -DVF_ROOT=\"$V\" $V/checks/$drv.c $B/binson_parser.o $B/binson_writer.o -o $B/$drv -lm || return 2
}

# C15: the C++ wrapper, built twice (automatic variables pre-filled with zero / with the 0xFE pattern) + a valgrind pass
build_cxx() {
  local variant=$1 B=$BLD/cxx
  mkdir -p $B
  local CF="-O1 -g -DBINSON_PARSER_WITH_PRINT -I$REPO/include"
  gcc -std=c99 $CF $SANFLAGS -c $REPO/src/binson_parser.c -o $B/binson_parser.o || return 2
  gcc -std=c99 $CF $SANFLAGS -c $REPO/src/binson_writer.c -o $B/binson_writer.o || return 2
  g++ -std=c++11 $CF $SANFLAGS -ftrivial-auto-var-init=$variant -c $REPO/src/binson.cpp -o $B/binson_$variant.o || return 2
  g++ -std=c++11 -Wall -Wno-unused-function -Wno-format-truncation -Wno-write-strings $CF $SANFLAGS -ftrivial-auto-var-init=$variant -DVF_ROOT=\"$V\" $V/checks/cxx.cpp \
      $B/binson_$variant.o $B/binson_parser.o $B/binson_writer.o -o $B/cxx_$variant || return 2
}
build_cxx_vg() {
  local B=$BLD/cxx CF="-O1 -g -DBINSON_PARSER_WITH_PRINT -I$REPO/include"
  gcc -std=c99 $CF -c $REPO/src/binson_parser.c -o $B/vg_parser.o && gcc -std=c99 $CF -c $REPO/src/binson_writer.c -o $B/vg_writer.o &&
  g++ -std=c++11 $CF -c $REPO/src/binson.cpp -o $B/vg_binson.o &&
  g++ -std=c++11 -Wno-write-strings $CF -DVF_ROOT=\"$V\" $V/checks/cxx.cpp $B/vg_binson.o $B/vg_parser.o $B/vg_writer.o -o $B/cxx_vg || return 2
}
run_cxx() {
  local tier=$1 B=$BLD/cxx
  build_cxx pattern && build_cxx zero && build_cxx_vg || { echo "HARNESS-ERROR: build failed"; exit 2; }
  VERIF_VARIANT=pattern VERIF_EVIDENCE_OUT=$B/evidence.pattern.json $B/cxx_pattern --prop C15 --tier $tier > $B/pattern.out 2>&1
  local rc=$?
  grep -E "^(VIOLATION|KNOWN-FINDING|HARNESS-ERROR|  signature)" $B/pattern.out
  if [ $rc -ne 0 ]; then cp $B/evidence.pattern.json ${VERIF_EVIDENCE_DIR:-$V/evidence}/C15.json 2>/dev/null; tail -1 $B/pattern.out; exit $rc; fi
  # uninitialised-value oracle on the inputs that init rejects
  valgrind -q --error-exitcode=9 --log-file=$B/valgrind.log $B/cxx_vg --valgrind-subset > $B/valgrind.out 2>&1
  if [ $? -eq 9 ]; then
    mkdir -p $V/replays/C15; cp $B/valgrind.log $V/replays/C15/valgrind-uninitialised.log
    echo "VIOLATION property=C15 replay=$V/replays/C15/valgrind-uninitialised.log"
    echo "  signature: cxx:valgrind:uninitialised-value (a deserialize overload acts on an uninitialised parser)"
    VERIF_VARIANT=zero VERIF_CXX_PREV="pattern build clean; valgrind pass FAILED" $B/cxx_zero --prop C15 --tier $tier | grep -v "^cxx C15"
    exit 1
  fi
  VERIF_VARIANT=zero VERIF_CXX_PREV="pattern build: $(tail -1 $B/pattern.out | tr -d '"'); valgrind pass: $(tail -1 $B/valgrind.out | tr -d '"') with no uninitialised-value report" exec $B/cxx_zero --prop C15 --tier $tier
}

# C17: the library as shared objects per compiler / optimisation level; the harness dlopens them
run_footprint() {
  local tier=$1 B=$BLD/footprint
  mkdir -p $B $V/replays/C17
  local libs=""
  for cc in gcc clang; do for opt in O0 O2 Os; do
    $cc -std=c99 -$opt -g -fPIC -shared -DBINSON_PARSER_WITH_PRINT -I$REPO/include $REPO/src/binson_parser.c $REPO/src/binson_writer.c -Wl,-z,relro,-z,now -o $B/libbinson_ut_${cc}_${opt}.so || { echo "HARNESS-ERROR: build failed"; exit 2; }
    libs="$libs $B/libbinson_ut_${cc}_${opt}.so"
  done; done
  gcc -std=c99 -O2 -g -fPIC -shared -I$REPO/include $REPO/src/binson_parser.c $REPO/src/binson_writer.c -Wl,-z,relro,-z,now -o $B/libbinson_ut_gcc_O2_noprint.so || { echo "HARNESS-ERROR: build failed"; exit 2; }
  libs="$libs $B/libbinson_ut_gcc_O2_noprint.so"
  gcc -std=gnu11 -O1 -g -Wall -Wno-unused-function -Wno-format-truncation -DBINSON_PARSER_WITH_PRINT -I$REPO/include -DVF_ROOT=\"$V\" $V/checks/footprint.c -o $B/footprint -ldl -lpthread || { echo "HARNESS-ERROR: build failed"; exit 2; }
  local cg
  cg=$(python3 $V/tools/callgraph.py $REPO $B 2> $B/callgraph.err); local cgrc=$?
  if [ $cgrc -ne 0 ]; then
    cp $B/callgraph_violations.txt $V/replays/C17/callgraph_violations.replay 2>/dev/null
    echo "VIOLATION property=C17 replay=$V/replays/C17/callgraph_violations.replay"
    echo "  signature: footprint:callgraph"; sed 's/^/  /' $B/callgraph.err | head -10
    VERIF_CALLGRAPH_JSON="$cg" $B/footprint --prop C17 --tier $tier -- $libs | grep -v "^footprint C17"
    exit 1
  fi
  VERIF_CALLGRAPH_JSON="$cg" exec $B/footprint --prop C17 --tier $tier -- $libs
}

if [ "${1:-}" = replay ]; then
  f=${2:?replay file}
  drv=$(sed -n 's/^check: //p' "$f" | head -1)
  prop=$(sed -n 's/^property: //p' "$f" | head -1)
  if [ "$drv" = xbuild ]; then
    echo "replay: re-running the C18 check (a digest difference is a property of two build configurations)"; exec $V/run.sh C18 quick
  fi
  if [ "$drv" = footprint ]; then
    # footprint findings are properties of a build configuration, not of an input: re-run the check itself
    echo "replay: re-running the C17 check (its violations are per build configuration)"; exec $V/run.sh C17 quick
  fi
  if [ "$drv" = cxx ]; then
    build_cxx zero || { echo "HARNESS-ERROR: build failed"; exit 2; }
    $BLD/cxx/cxx_zero --prop C15 --replay "$f"; rc=$?
    if [ $rc = 3 ]; then echo "VIOLATION property=$prop replay=$f"; exit 1; fi
    exit $rc
  fi
  build $drv || { echo "HARNESS-ERROR: build failed"; exit 2; }
  $BLD/$drv/$drv --prop $prop --replay "$f"
  rc=$?
  # exit 3 = the code under test died (signal / sanitizer / hang) while replaying: the violation reproduces
  if [ $rc = 3 ]; then echo "VIOLATION property=$prop replay=$f"; exit 1; fi
  exit $rc
fi

if [ "${1:-}" = setup ]; then
  # nothing is cached between runs: every check rebuilds the library and its driver from $REPO. Setup only proves the toolchain works.
  mkdir -p $BLD $V/evidence $V/replays
  for d in nav api verify stream decode writer text; do build $d || { echo "setup: building $d failed"; exit 2; }; done
  echo "setup ok"; exit 0
fi
prop=${1:?property id}
tier=${2:-${VERIF_TIER:-quick}}
drv=$(driver_of $prop)
[ -n "$drv" ] || { echo "HARNESS-ERROR: no check for $prop"; exit 2; }
mkdir -p $V/evidence
if [ "$drv" = cxx ]; then run_cxx $tier; fi
if [ "$drv" = footprint ]; then run_footprint $tier; fi
if [ "$drv" = xbuild ]; then exec python3 $V/tools/xbuild.py $REPO $V $tier $BLD; fi
build $drv || { echo "HARNESS-ERROR: build failed"; exit 2; }
exec $BLD/$drv/$drv --prop $prop --tier $tier
