/* obsdigest.c - C18: one program, built once per compiler / optimisation level / char signedness / sanitizer
 * configuration. It explores fixed EXHAUSTIVE scenario spaces on the library it was built with and folds every
 * observable result (return values, error codes, decoded values with pointers as offsets, bytes written, text)
 * into one 128-bit digest per scenario. The explored state graphs are deduplicated with the type-directed
 * canonical form of the parser (never with raw memory), so that the graph itself cannot depend on dead bytes.
 * tools/xbuild.py builds all configurations, runs them and compares the digests; with --log <scenario> every
 * folded observation is printed, so that two builds can be diffed down to the first differing observation. */
#include "../lib/vf_util.h"
#include "../lib/vf_ref.h"
#include "../lib/vf_gen.h"
#include "../lib/vf_snap.h"
#include <sys/mman.h>

static const char *LOGSCN;      /* scenario to log, or NULL */
static bool logging;
static uint64_t H1, H2, NOBS, NSTATES, NTRANS;
static void fold(const char *fmt, ...) __attribute__((format(printf, 1, 2)));
static void fold(const char *fmt, ...)
{
    char buf[2048];
    va_list ap;
    va_start(ap, fmt);
    int n = vsnprintf(buf, sizeof buf, fmt, ap);
    va_end(ap);
    if (n < 0) n = 0;
    if ((size_t) n >= sizeof buf) n = sizeof buf - 1;
    H1 = vf_hash_bytes(H1, buf, (size_t) n + 1);
    H2 = vf_hash_bytes(H2 ^ 0x9e3779b97f4a7c15ULL, buf, (size_t) n + 1) * 31;
    NOBS++;
    if (logging) printf("  %s\n", buf);
}
static void fold_bytes(const char *tag, const uint8_t *b, size_t n)
{
    static char hx[8200];
    if (n > 4096) n = 4096;
    vf_hex(hx, b, n);
    fold("%s %zu %s", tag, n, hx);
}
static void scenario_begin(const char *name)
{
    H1 = VF_HASH_INIT; H2 = 0x1234567887654321ULL; NOBS = 0; NSTATES = 0; NTRANS = 0;
    logging = LOGSCN && !strcmp(LOGSCN, name);
    if (logging) printf("LOG %s\n", name);
}
static void scenario_end(const char *name)
{
    printf("scenario %s %016llx%016llx observations=%llu states=%llu transitions=%llu\n", name, (unsigned long long) vf_mix(H1), (unsigned long long) vf_mix(H2),
           (unsigned long long) NOBS, (unsigned long long) NSTATES, (unsigned long long) NTRANS);
}

/* ------------------------------------------------------------------ S1: verify verdicts */
static void s1_seq(vf_tokenum *e, void *u)
{
    (void) u;
    for (int kind = VK_OBJ; kind <= VK_ARR; kind++)
        for (int md = 1; md <= 3; md++) {
            vf_live L;
            vf_live_alloc(&L, e->buf, e->len, md, 0);
            bool i = kind == VK_OBJ ? binson_parser_init_object(L.p, vf_live_bufptr(&L), L.len) : binson_parser_init_array(L.p, vf_live_bufptr(&L), L.len);
            bool v = binson_parser_verify(L.p);
            NTRANS += 2; NSTATES++;
            fold("verify %s k%d d%d init=%d verify=%d err=%d", vf_tokenum_label(e), kind, md, i, v, (int) L.p->error_flags);
            vf_live_free(&L);
        }
}
static void scenario_verify(void)
{
    scenario_begin("verify");
    vf_tokenum e;
    for (int frame = 0; frame <= 2; frame++) {
        memset(&e, 0, sizeof e);
        e.alpha = vf_tok_hostile; e.ntok = VF_NTOK_HOSTILE; e.maxlen = 2; e.frame = frame == 0 ? 0 : frame == 1 ? VK_OBJ : VK_ARR; e.cb = s1_seq; e.W = 1;
        vf_tokenum_run(&e);
    }
    scenario_end("verify");
}

/* ------------------------------------------------------------------ S2/S3: navigation and lookup state graphs */
static vf_live NL;
static const vf_name names_trap[] = { { (const uint8_t *) "", 0 }, { (const uint8_t *) "\0", 1 }, { (const uint8_t *) "a", 1 }, { (const uint8_t *) "a\0", 2 }, { (const uint8_t *) "ab", 2 },
                                      { (const uint8_t *) "b", 1 }, { (const uint8_t *) "\x7f", 1 }, { (const uint8_t *) "\x80", 1 }, { (const uint8_t *) "\xff", 1 } };
static bool with_lookups;
static void observe(const char *op, bool ret)
{
    binson_parser *p = NL.p;
    const uint8_t *base = vf_live_bufptr(&NL);
    binson_type t = binson_parser_get_type(p);
    bbuf *s = binson_parser_get_string_bbuf(p), *y = binson_parser_get_bytes_bbuf(p);
    double d = binson_parser_get_double(p);
    uint64_t db;
    memcpy(&db, &d, 8);
    fold("%s ret=%d err=%d type=%d depth=%zu int=%lld bool=%d dbl=%llx str=%ld/%zu byt=%ld/%zu used=%zu", op, ret, (int) p->error_flags, (int) t, binson_parser_get_depth(p),
         (long long) binson_parser_get_integer(p), binson_parser_get_boolean(p), (unsigned long long) db, s ? (long) (s->bptr - base) : -1L, s ? s->bsize : 0, y ? (long) (y->bptr - base) : -1L,
         y ? y->bsize : 0, p->buffer_used);
    if (s && s->bptr && !memchr(s->bptr, 0, s->bsize)) {
        /* the value compared with an exact NUL-terminated copy of itself, with a copy whose last byte differs, and with a longer one */
        char *c = (char *) malloc(s->bsize + 2);
        memcpy(c, s->bptr, s->bsize); c[s->bsize] = 0;
        bool e1 = binson_parser_string_equals(p, c);
        bool e2 = false, e3;
        if (s->bsize) { c[s->bsize - 1] = (char) (c[s->bsize - 1] ^ 0x80); e2 = binson_parser_string_equals(p, c); c[s->bsize - 1] = (char) (c[s->bsize - 1] ^ 0x80); }
        c[s->bsize] = 'x'; c[s->bsize + 1] = 0;
        e3 = binson_parser_string_equals(p, c);
        free(c);
        fold(" eqSelf=%d eqFlip=%d eqLonger=%d", e1, e2, e3);
    }
    /* the name is only asked for where an object field is current (inside arrays it raises STATE by design) */
    if (ret && p->error_flags == BINSON_ERROR_NONE && p->current_state && p->current_state->current_name.bptr) {
        bbuf *nm = binson_parser_get_name(p);
        /* probes in exact-size heap blocks: a comparison that reads past the terminator is a sanitizer report in the sanitizer builds */
        static char *pa, *px;
        if (!pa) { pa = (char *) malloc(2); pa[0] = 'a'; pa[1] = 0; px = (char *) malloc(2); px[0] = 'x'; px[1] = 0; }
        fold(" name=%ld/%zu eqA=%d eqX=%d", nm ? (long) (nm->bptr - base) : -1L, nm ? nm->bsize : 0, binson_parser_string_equals(p, pa), binson_parser_string_equals(p, px));
    }
}
static void nav_doc(vf_gen *g, void *u)
{
    (void) u;
    static vf_set S;
    static bool init;
    static vf_str key;
    /* with each parser image goes what the APPLICATION knows about where it is: the containers it entered successfully (the
     * library's private level flags are not consulted); unknown = after a call outside the enter / leave discipline */
    typedef struct { vf_snap s; int8_t sp, unknown; char st[14]; } rec;
    static rec *states; static size_t cap;
    struct keyrec { char k[1024]; };
    if (!init) { vf_set_init(&S, sizeof(struct keyrec)); init = true; }
    vf_set_clear(&S);
    vf_live_alloc(&NL, g->doc.bytes, g->doc.len, 4, 0);
    bool ok = g->doc.root_kind == VK_OBJ ? binson_parser_init_object(NL.p, vf_live_bufptr(&NL), NL.len) : binson_parser_init_array(NL.p, vf_live_bufptr(&NL), NL.len);
    fold("doc %s init=%d", vf_shape(&g->doc), ok);
    struct keyrec kr;
    bool isnew;
    memset(&kr, 0, sizeof kr);
    vf_str_reset(&key); vf_canon(&key, &NL);
    if (key.n >= sizeof kr.k) vf_die("canonical key too long");
    memcpy(kr.k, key.s, key.n);
    vf_set_insert(&S, &kr, &isnew);
    if (cap < 1) { cap = 1024; states = (rec *) vf_xmalloc(cap * sizeof *states); }
    memset(&states[0], 0, sizeof states[0]);
    vf_snap_save(&states[0].s, &NL);
    int nops = with_lookups ? 6 + 9 * 2 : 6;
    for (size_t s = 0; s < S.n; s++) {
        for (int op = 0; op < nops; op++) {
            vf_snap_load(&NL, &states[s].s);
            binson_parser *p = NL.p;
            bool r;
            char name[40];
            bbuf raw = { 0, NULL };
            rec cur = states[s];
            /* lookups only while the innermost entered container is an object (documented precondition) */
            bool inobj = !cur.unknown && cur.sp > 0 && cur.st[cur.sp - 1] == 'O';
            /* also inside an array (or arrays) below a field of an entered object: undocumented use, but the level has a name and all pointers are valid */
            bool innamedarr = false;
            if (!cur.unknown && cur.sp > 1 && cur.st[cur.sp - 1] == 'A') for (int i = 0; i < cur.sp - 1; i++) if (cur.st[i] == 'O') innamedarr = true;
            if (op >= 6 && ((!inobj && !innamedarr) || p->error_flags)) continue;
            switch (op) {
            case 0: r = binson_parser_next(p); snprintf(name, sizeof name, "next"); break;
            case 1: r = binson_parser_go_into_object(p); snprintf(name, sizeof name, "into_obj"); break;
            case 2: r = binson_parser_go_into_array(p); snprintf(name, sizeof name, "into_arr"); break;
            case 3: r = binson_parser_leave_object(p); snprintf(name, sizeof name, "leave_obj"); break;
            case 4: r = binson_parser_leave_array(p); snprintf(name, sizeof name, "leave_arr"); break;
            case 5: r = binson_parser_get_raw(p, &raw); snprintf(name, sizeof name, "raw %ld/%zu", r && raw.bptr ? (long) (raw.bptr - vf_live_bufptr(&NL)) : -1L, r ? raw.bsize : 0); break;
            default: {
                int q = (op - 6) % 9, v = (op - 6) / 9;
                if (v == 0) r = binson_parser_field_with_length(p, (const char *) names_trap[q].p, names_trap[q].len);
                else r = binson_parser_field_ensure_with_length(p, (const char *) names_trap[q].p, names_trap[q].len, BINSON_TYPE_INTEGER);
                snprintf(name, sizeof name, "field%d q%d", v, q);
                break;
            }
            }
            /* the application's view after the call */
            if (!cur.unknown && p->error_flags == BINSON_ERROR_NONE) {
                if ((op == 1 || op == 2) && r) { if (cur.sp < 13) cur.st[cur.sp++] = op == 1 ? 'O' : 'A'; else cur.unknown = 1; }
                else if ((op == 3 || op == 4) && r) { if (cur.sp > 0 && cur.st[cur.sp - 1] == (op == 3 ? 'O' : 'A')) { cur.st[--cur.sp] = 0; if (cur.sp == 0) cur.unknown = 1; } else cur.unknown = 1; }
                else if ((op == 3 || op == 4) && !r) cur.unknown = 1;
                else if (op == 5 && r) { /* a container was skipped as a whole: position unchanged */ }
            } else cur.unknown = 1;
            NTRANS++;
            char tag[80];
            snprintf(tag, sizeof tag, "s%zu %s", s, name);
            observe(tag, r);
            vf_str_reset(&key); vf_canon(&key, &NL);
            if (key.n >= sizeof kr.k) vf_die("canonical key too long");
            memset(&kr, 0, sizeof kr);
            memcpy(kr.k, key.s, key.n);
            size_t idx = vf_set_insert(&S, &kr, &isnew);
            fold(" -> state %zu", idx);
            if (isnew) {
                if (idx >= cap) { cap *= 2; states = (rec *) vf_xrealloc(states, cap * sizeof *states); }
                states[idx] = cur;
                vf_snap_save(&states[idx].s, &NL);
            }
        }
    }
    NSTATES += S.n;
    vf_live_free(&NL);
}
static void scenario_nav(void)
{
    scenario_begin("navigation");
    static const int cls[] = { LC_INT8, LC_STR, LC_STRNUL, LC_STRHI, LC_OBJ, LC_ARR };
    static vf_gen g;
    with_lookups = false;
    for (int root = VK_OBJ; root <= VK_ARR; root++) {
        memset(&g, 0, sizeof g);
        g.root_kind = root; g.max_tokens = 3; g.classes = cls; g.nclasses = 6; g.names = vf_names_abc; g.nnames = 3; g.max_obj_depth = 4; g.cb = nav_doc;
        vf_gen_run(&g);
    }
    scenario_end("navigation");
    scenario_begin("lookups");
    static const int cls2[] = { LC_INT8, LC_OBJ, LC_ARR };
    with_lookups = true;
    memset(&g, 0, sizeof g);
    g.root_kind = VK_OBJ; g.max_tokens = 2; g.classes = cls2; g.nclasses = 3; g.names = names_trap; g.nnames = 9; g.max_obj_depth = 3; g.cb = nav_doc;
    vf_gen_run(&g);
    scenario_end("lookups");
}

/* ------------------------------------------------------------------ S4: the writer */
static void scenario_writer(void)
{
    scenario_begin("writer");
    static uint8_t payload[300];
    for (size_t i = 0; i < sizeof payload; i++) payload[i] = (uint8_t) (0x30 + i * 7);
    enum { NW = 17 };
    for (int a = 0; a < NW; a++)
        for (int b = -1; b < NW; b++) {
            for (size_t cap = 0; cap <= 300; cap += (cap < 24 ? 1 : 37)) {
                /* the writer's buffer is a sub-range of a larger arena: 8 bytes of headroom in front (sources may start there) */
                uint8_t *arena = (uint8_t *) vf_xmalloc(cap + 8);
                memset(arena, 0xA5, cap + 8);
                uint8_t *dst = arena + 8;
                binson_writer w;
                memset(&w, 0x77, sizeof w);      /* a writer object holding arbitrary (but fixed) bytes before init */
                binson_writer_init(&w, dst, cap);
                int seq[2] = { a, b };
                for (int i = 0; i < 2; i++) {
                    bool r = false;
                    if (seq[i] < 0) continue;
                    switch (seq[i]) {
                    case 0: r = binson_write_object_begin(&w); break;
                    case 1: r = binson_write_array_end(&w); break;
                    case 2: r = binson_write_boolean(&w, true); break;
                    case 3: r = binson_write_integer(&w, -128); break;
                    case 4: r = binson_write_integer(&w, 128); break;
                    case 5: r = binson_write_integer(&w, -32769); break;
                    case 6: r = binson_write_integer(&w, INT64_MIN); break;
                    case 7: r = binson_write_double(&w, -1.5); break;
                    case 8: r = binson_write_string_with_len(&w, (const char *) payload, 0); break;
                    case 9: r = binson_write_string_with_len(&w, (const char *) payload, 128); break;
                    case 10: r = binson_write_bytes(&w, payload, 3); break;
                    case 11: r = binson_write_string(&w, "\xc3\xa5\x80"); break;
                    case 12: r = binson_write_raw(&w, payload, 2); break;
                    case 13: r = binson_write_string_with_len(&w, (const char *) payload, (size_t) INT32_MAX + 1); break;
                    case 14: {  /* re-emit 4 bytes starting 2 below the cursor: source inside the destination, overlapping it from below */
                        bool alias = w.error_flags == BINSON_ERROR_NONE && w.buffer_used >= 2 && w.buffer_used + 2 <= cap;
                        r = binson_write_raw(&w, alias ? w.buffer + w.buffer_used - 2 : payload, 4);
                        break;
                    }
                    case 16: {  /* 6 bytes starting 3 below the cursor - in front of the writer's buffer while fewer than 3 bytes are written */
                        bool alias = w.error_flags == BINSON_ERROR_NONE && w.buffer_used + 3 <= cap;
                        r = binson_write_raw(&w, alias ? w.buffer + w.buffer_used - 3 : payload, 6);
                        break;
                    }
                    case 15: {  /* a 40-byte string staged 3 bytes ahead of where it will land (in-place message building) */
                        bool alias = w.error_flags == BINSON_ERROR_NONE && w.buffer_used + 2 + 3 + 40 <= cap;
                        if (alias) memcpy(w.buffer + w.buffer_used + 5, payload, 40);
                        r = binson_write_string_with_len(&w, alias ? (const char *) (w.buffer + w.buffer_used + 5) : (const char *) payload, 40);
                        if (alias) memset(w.buffer + w.buffer_used, 0xA5, 3);      /* the staged tail the write did not cover */
                        break;
                    }
                    }
                    NTRANS++;
                    fold("w %d,%d cap%zu call%d ret=%d ctr=%zu err=%d", a, b, cap, i, r, binson_writer_get_counter(&w), (int) w.error_flags);
                }
                NSTATES++;
                fold_bytes("dst", arena, cap + 8);
                free(arena);
            }
        }
    scenario_end("writer");
}

/* ------------------------------------------------------------------ S5: text */
static int outfd = -1, saved_stdout = -1;
static void text_doc(vf_gen *g, void *u)
{
    (void) u;
    vf_live L;
    vf_live_alloc(&L, g->doc.bytes, g->doc.len, 4, 0);
    bool ok = g->doc.root_kind == VK_OBJ ? binson_parser_init_object(L.p, vf_live_bufptr(&L), L.len) : binson_parser_init_array(L.p, vf_live_bufptr(&L), L.len);
    size_t need = 77;
    bool r0 = binson_parser_to_string(L.p, NULL, &need, false);
    fold("text %s init=%d null: ret=%d need=%zu", vf_shape(&g->doc), ok, r0, need);
    size_t caps[4] = { 0, need ? need - 1 : 0, need, need + 5 };
    for (int i = 0; i < 4; i++) {
        char *b = (char *) vf_xmalloc(caps[i] ? caps[i] : 1);
        memset(b, '#', caps[i] ? caps[i] : 1);
        size_t sz = caps[i];
        bool r = binson_parser_to_string(L.p, caps[i] ? b : b + 1, &sz, i & 1);
        NTRANS++;
        fold(" cap%zu ret=%d size=%zu", caps[i], r, sz);
        if (r) fold_bytes(" text", (const uint8_t *) b, sz + 1);
        free(b);
    }
    /* print */
    fflush(stdout);
    if (ftruncate(outfd, 0) || lseek(outfd, 0, SEEK_SET) < 0) vf_die("memfd");
    dup2(outfd, 1);
    bool pr = binson_parser_print(L.p);
    fflush(stdout);
    dup2(saved_stdout, 1);
    off_t n = lseek(outfd, 0, SEEK_CUR);
    static char pb[8192];
    if (n > (off_t) sizeof pb) n = sizeof pb;
    if (pread(outfd, pb, (size_t) n, 0) != n) vf_die("pread");
    fold(" print ret=%d", pr);
    fold_bytes(" printed", (const uint8_t *) pb, (size_t) n);
    NSTATES++;
    vf_live_free(&L);
}
static void scenario_text(void)
{
    scenario_begin("text");
    outfd = memfd_create("obs", 0);
    saved_stdout = dup(1);
    static const int cls[] = { LC_INT8, LC_INTMIN, LC_DBL, LC_DBLBIG, LC_STR, LC_STRNUL, LC_BYT0, LC_BYT, LC_TRUE, LC_FALSE, LC_OBJ, LC_ARR };
    static const vf_name names[] = { { (const uint8_t *) "A", 1 }, { (const uint8_t *) "\xc3\xa5", 2 } };
    static vf_gen g;
    for (int root = VK_OBJ; root <= VK_ARR; root++) {
        memset(&g, 0, sizeof g);
        g.root_kind = root; g.max_tokens = 2; g.classes = cls; g.nclasses = 12; g.names = names; g.nnames = 2; g.cb = text_doc;
        vf_gen_run(&g);
    }
    scenario_end("text");
}

/* ------------------------------------------------------------------ S6: value boundaries through writer and parser */
static void one_value(int64_t iv, uint64_t dbits, bool isdbl)
{
    uint8_t out[32];
    binson_writer w;
    memset(&w, 0x77, sizeof w);      /* a writer object holding arbitrary (but fixed) bytes before init */
    binson_writer_init(&w, out, sizeof out);
    binson_write_array_begin(&w);
    double d;
    memcpy(&d, &dbits, 8);
    bool r = isdbl ? binson_write_double(&w, d) : binson_write_integer(&w, iv);
    binson_write_array_end(&w);
    size_t n = binson_writer_get_counter(&w);
    fold("value %s ret=%d n=%zu err=%d", isdbl ? "dbl" : "int", r, n, (int) w.error_flags);
    fold_bytes(" enc", out, n);
    binson_state st[2];
    binson_parser p;
    memset(&p, 0, sizeof p);
    p.state = st; p.max_depth = 2;
    bool i = binson_parser_init_array(&p, out, n), e = binson_parser_go_into_array(&p), nx = binson_parser_next(&p);
    double gd = binson_parser_get_double(&p);
    uint64_t gb;
    memcpy(&gb, &gd, 8);
    fold(" back init=%d enter=%d next=%d type=%d int=%lld dbl=%llx err=%d", i, e, nx, (int) binson_parser_get_type(&p), (long long) binson_parser_get_integer(&p), (unsigned long long) gb, (int) p.error_flags);
    NTRANS += 6; NSTATES++;
}
static void scenario_values(void)
{
    scenario_begin("values");
    for (int k = 0; k < 64; k++)
        for (int dl = -3; dl <= 3; dl++)
            for (int sg = 0; sg < 2; sg++) { uint64_t u = (1ULL << k) + (uint64_t) (int64_t) dl; one_value((int64_t) (sg ? (uint64_t) 0 - u : u), 0, false); }
    { int64_t p10 = 1; for (int k = 0; k <= 18; p10 = k < 18 ? p10 * 10 : p10, k++) for (int dl = -1; dl <= 1; dl++) { one_value(p10 + dl, 0, false); one_value(-(p10 + dl), 0, false); } }
    { static const uint8_t fills[] = { 0x01, 0x5a, 0x80, 0xff };
      for (int f = 0; f < 4; f++) for (int mask = 1; mask < 256; mask += 3) { uint64_t u = 0; for (int b = 0; b < 8; b++) if (mask & (1 << b)) u |= (uint64_t) fills[f] << (8 * b); one_value((int64_t) u, 0, false); one_value(0, u, true); } }
    for (uint64_t top = 0; top < 65536; top += 97) { one_value(0, top << 48, true); one_value(0, (top << 48) | 0xffffffffffffULL, true); }
    for (int pos = 0; pos < 8; pos++) for (uint64_t v = 0; v < 256; v += 5) one_value(0, v << (8 * pos), true);
    /* non-minimal and boundary encodings through the parser */
    static const char *const enc[] = { "4210804 3", "421180ff43", "42117fff43", "4211800043", "421200800000 43", "4212ffff7fff43", "421300000080ffffffff43", "42130000008000000000 43", "4213ffffffffffffff7f43",
                                       "42 14 80 43", "4215800061 43", "42 18 ff 43", "421a ffffff7f 43" };
    for (size_t i = 0; i < sizeof enc / sizeof enc[0]; i++) {
        uint8_t b[32];
        char clean[64];
        size_t c = 0;
        for (const char *s = enc[i]; *s; s++) if (*s != ' ') clean[c++] = *s;
        clean[c] = 0;
        long n = vf_unhex(b, sizeof b, clean);
        binson_state st[2];
        binson_parser p;
        memset(&p, 0, sizeof p);
        p.state = st; p.max_depth = 2;
        bool in = binson_parser_init_array(&p, b, (size_t) n), v = binson_parser_verify(&p);
        binson_err ve = p.error_flags;
        bool e = binson_parser_go_into_array(&p), nx = binson_parser_next(&p);
        fold("enc %s init=%d verify=%d verr=%d enter=%d next=%d int=%lld err=%d", clean, in, v, (int) ve, e, nx, (long long) binson_parser_get_integer(&p), (int) p.error_flags);
        NTRANS += 4; NSTATES++;
    }
    scenario_end("values");
}

/* ------------------------------------------------------------------ S7: payload lengths on every prefix-width boundary, at every alignment */
static void scenario_large(void)
{
    scenario_begin("large");
    static uint8_t pay[65537], out[70000];
    static vf_doc d;
    for (size_t i = 0; i < sizeof pay; i++) pay[i] = (uint8_t) ('a' + i % 23);
    static const size_t lens[] = { 127, 128, 255, 256, 32767, 32768, 65535, 65536 };
    for (size_t li = 0; li < sizeof lens / sizeof lens[0]; li++)
        for (int role = 0; role < 3; role++)
            for (int pad = 0; pad < 4; pad++) {
                vf_b_reset(&d);
                vf_b_open(&d, VK_OBJ);
                if (pad) { vf_b_name(&d, "\x01\x01\x01", (size_t) pad - 1 + (pad == 1)); vf_b_bool(&d, true); }
                if (role == 2) { vf_b_name(&d, pay, lens[li]); vf_b_int(&d, 5); }
                else { vf_b_name(&d, "k", 1); vf_b_blob(&d, role == 0 ? VK_STR : VK_BYT, pay, lens[li]); }
                vf_b_close(&d);
                vf_live L;
                vf_live_alloc(&L, d.bytes, d.len, 2, 0);
                binson_parser *p = L.p;
                const uint8_t *base = vf_live_bufptr(&L);
                bool i = binson_parser_init_object(p, base, L.len), v = binson_parser_verify(p);
                binson_err ve = p->error_flags;
                bool e = binson_parser_go_into_object(p);
                fold("large len%zu role%d pad%d init=%d verify=%d verr=%d enter=%d", lens[li], role, pad, i, v, (int) ve, e);
                while (binson_parser_next(p)) {
                    bbuf *nm = binson_parser_get_name(p), *s = binson_parser_get_string_bbuf(p), *y = binson_parser_get_bytes_bbuf(p);
                    fold(" field type=%d name=%ld/%zu str=%ld/%zu byt=%ld/%zu int=%lld", (int) binson_parser_get_type(p), nm ? (long) (nm->bptr - base) : -1L, nm ? nm->bsize : 0,
                         s ? (long) (s->bptr - base) : -1L, s ? s->bsize : 0, y ? (long) (y->bptr - base) : -1L, y ? y->bsize : 0, (long long) binson_parser_get_integer(p));
                    NTRANS++;
                }
                bool lv = binson_parser_leave_object(p);
                size_t need = 0;
                bool ts = binson_parser_to_string(p, NULL, &need, false);
                fold(" end leave=%d err=%d tostring=%d need=%zu", lv, (int) p->error_flags, ts, need);
                /* the same value through the writer */
                binson_writer w;
                memset(&w, 0x77, sizeof w);      /* a writer object holding arbitrary (but fixed) bytes before init */
                binson_writer_init(&w, out, sizeof out);
                binson_write_object_begin(&w);
                if (role == 2) { binson_write_name_with_len(&w, (const char *) pay, lens[li]); binson_write_integer(&w, 5); }
                else { binson_write_name(&w, "k"); if (role == 0) binson_write_string_with_len(&w, (const char *) pay, lens[li]); else binson_write_bytes(&w, pay, lens[li]); }
                binson_write_object_end(&w);
                fold(" written n=%zu err=%d hash=%016llx", binson_writer_get_counter(&w), (int) w.error_flags,
                     (unsigned long long) vf_hash_bytes(VF_HASH_INIT, out, binson_writer_get_counter(&w) < sizeof out ? binson_writer_get_counter(&w) : sizeof out));
                NSTATES++;
                vf_live_free(&L);
            }
    scenario_end("large");
}

int main(int argc, char **argv)
{
    for (int i = 1; i < argc; i++) if (!strcmp(argv[i], "--log") && i + 1 < argc) LOGSCN = argv[++i];
    setvbuf(stdout, NULL, _IOFBF, 1 << 16);
    printf("config char_is_%s sizeof_state=%zu\n", (char) -1 < 0 ? "signed" : "unsigned", sizeof(binson_state));
    scenario_verify();
    scenario_nav();
    scenario_writer();
    scenario_text();
    scenario_values();
    scenario_large();
    return 0;
}
