/* footprint.c - C17: no heap, no recursion, no writable globals; independent objects do not interfere.
 * The library is loaded as a shared object (one per compiler / optimisation configuration, given on the command
 * line); the harness
 *   1. interposes every allocator entry point and flags any call whose return address lies in the DSO's text,
 *   2. snapshots the DSO's writable segments and requires them unchanged across every call,
 *   3. runs each entry point on a painted caller-owned thread stack and requires the high-water mark to be the
 *      same constant for every member of each scaling family (nesting 2..250, 2^3..2^14 elements),
 *   4. explores the PRODUCT state graph of two independent parsers (and a writer) over all interleavings of their
 *      operations to a fixpoint: an operation on one object leaves the image of the others untouched and has the
 *      successor it has in every other context.
 * The call-graph search (no cycle, no allocator, static frames only) is done on the compiler's output by
 * tools/callgraph.py and its summary is embedded in the evidence. */
#include "../lib/vf_util.h"
#include "../lib/vf_ref.h"
#include "../lib/vf_run.h"
#include "binson_light.h"
#include <dlfcn.h>
#include <link.h>
#include <pthread.h>
#include <sys/syscall.h>

enum { CT_DSOS, CT_CALLS, CT_ALLOC_DURING_CALLS, CT_ALLOC_FROM_DSO, CT_DATA_SNAPSHOTS, CT_DATA_BYTES, CT_STACK_RUNS, CT_STACK_FAMILIES, CT_MAX_STACK, CT_PAIR_STATES, CT_PAIR_TRANS,
       CT_PAIRS, CT_SUCC_CHECKS, CT_STATES };
static const char *const ctr_names[VF_NCTR] = {
    "shared_objects_configurations", "library_calls", "allocator_calls_while_inside_library_calls_(libc_internal)", "allocator_calls_from_library_text",
    "writable_segment_comparisons", "max_writable_segment_bytes", "painted_stack_runs", "stack_scaling_families_x_entry_points", "max_stack_high_water_bytes",
    "product_states", "product_transitions", "document_pairs", "successor_consistency_checks", "states_total"
};

/* ------------------------------------------------------------------ the API, through dlsym */
#define API_LIST(X) \
    X(bool, binson_parser_init_object, (binson_parser *, const uint8_t *, size_t)) \
    X(bool, binson_parser_init_array, (binson_parser *, const uint8_t *, size_t)) \
    X(bool, binson_parser_reset, (binson_parser *)) \
    X(bool, binson_parser_verify, (binson_parser *)) \
    X(bool, binson_parser_next, (binson_parser *)) \
    X(bool, binson_parser_field_with_length, (binson_parser *, const char *, size_t)) \
    X(bool, binson_parser_go_into_object, (binson_parser *)) \
    X(bool, binson_parser_go_into_array, (binson_parser *)) \
    X(bool, binson_parser_leave_object, (binson_parser *)) \
    X(bool, binson_parser_leave_array, (binson_parser *)) \
    X(bool, binson_parser_get_raw, (binson_parser *, bbuf *)) \
    X(int64_t, binson_parser_get_integer, (binson_parser *)) \
    X(bbuf *, binson_parser_get_name, (binson_parser *)) \
    X(bool, binson_writer_init, (binson_writer *, uint8_t *, size_t)) \
    X(bool, binson_write_object_begin, (binson_writer *)) \
    X(bool, binson_write_object_end, (binson_writer *)) \
    X(bool, binson_write_integer, (binson_writer *, int64_t)) \
    X(bool, binson_write_double, (binson_writer *, double)) \
    X(bool, binson_write_string_with_len, (binson_writer *, const char *, size_t)) \
    X(bool, binson_write_bytes, (binson_writer *, const uint8_t *, size_t)) \
    X(bool, binson_write_raw, (binson_writer *, const uint8_t *, size_t)) \
    X(bool, binson_write_array_begin, (binson_writer *)) \
    X(bool, binson_write_array_end, (binson_writer *)) \
    X(bool, binson_parser_to_writer, (binson_parser *, binson_writer *)) \
    X(bool, binson_writer_verify, (binson_writer *))
#define X(ret, name, args) static ret (*p_##name) args;
API_LIST(X)
#undef X
static bool (*p_binson_parser_to_string)(binson_parser *, char *, size_t *, bool);
static bool (*p_binson_parser_print)(binson_parser *);

/* ------------------------------------------------------------------ allocator interposition */
extern void *__libc_malloc(size_t);
extern void *__libc_calloc(size_t, size_t);
extern void *__libc_realloc(void *, size_t);
extern void __libc_free(void *);
extern void *__libc_memalign(size_t, size_t);
static uintptr_t dso_text_lo, dso_text_hi;
static volatile int in_lib;
static volatile uint64_t alloc_in_lib, alloc_from_dso;
static inline void note_alloc(void *ra)
{
    uintptr_t a = (uintptr_t) ra;
    if (in_lib) alloc_in_lib++;
    if (a >= dso_text_lo && a < dso_text_hi) alloc_from_dso++;
}
void *malloc(size_t n) { note_alloc(__builtin_return_address(0)); return __libc_malloc(n); }
void *calloc(size_t a, size_t b) { note_alloc(__builtin_return_address(0)); return __libc_calloc(a, b); }
void *realloc(void *p, size_t n) { note_alloc(__builtin_return_address(0)); return __libc_realloc(p, n); }
void free(void *p) { if (p) note_alloc(__builtin_return_address(0)); __libc_free(p); }
void *aligned_alloc(size_t a, size_t n) { note_alloc(__builtin_return_address(0)); return __libc_memalign(a, n); }
void *memalign(size_t a, size_t n) { note_alloc(__builtin_return_address(0)); return __libc_memalign(a, n); }
int posix_memalign(void **out, size_t a, size_t n) { note_alloc(__builtin_return_address(0)); *out = __libc_memalign(a, n); return *out ? 0 : 12; }
void *mmap(void *addr, size_t len, int prot, int flags, int fd, off_t off) { note_alloc(__builtin_return_address(0)); return (void *) syscall(SYS_mmap, addr, len, prot, flags, fd, off); }
void *sbrk(intptr_t inc)
{
    note_alloc(__builtin_return_address(0));
    uintptr_t cur = (uintptr_t) syscall(SYS_brk, 0);
    if (inc == 0) return (void *) cur;
    uintptr_t nw = (uintptr_t) syscall(SYS_brk, cur + (uintptr_t) inc);
    return nw == cur + (uintptr_t) inc ? (void *) cur : (void *) -1;
}

/* ------------------------------------------------------------------ the DSO's segments */
static struct { uint8_t *addr; size_t len; uint8_t *copy; } wseg[8];
static int nwseg;
static const char *dso_path;
static int phdr_cb(struct dl_phdr_info *info, size_t size, void *data)
{
    (void) size; (void) data;
    if (!info->dlpi_name || strcmp(info->dlpi_name, dso_path)) return 0;
    for (int i = 0; i < info->dlpi_phnum; i++) {
        const ElfW(Phdr) *ph = &info->dlpi_phdr[i];
        if (ph->p_type != PT_LOAD) continue;
        uintptr_t lo = info->dlpi_addr + ph->p_vaddr, hi = lo + ph->p_memsz;
        if (ph->p_flags & PF_X) { dso_text_lo = lo; dso_text_hi = hi; }
        if ((ph->p_flags & PF_W) && nwseg < 8) { wseg[nwseg].addr = (uint8_t *) lo; wseg[nwseg].len = ph->p_memsz; nwseg++; }
    }
    return 1;
}
static void snapshot_data(void)
{
    for (int i = 0; i < nwseg; i++) { if (!wseg[i].copy) wseg[i].copy = (uint8_t *) __libc_malloc(wseg[i].len); memcpy(wseg[i].copy, wseg[i].addr, wseg[i].len); }
}
static const char *cur_what = "";
static void violation(const char *sig, const char *fmt, ...) __attribute__((format(printf, 2, 3)));
static void violation(const char *sig, const char *fmt, ...)
{
    char msg[400];
    va_list ap;
    va_start(ap, fmt);
    vsnprintf(msg, sizeof msg, fmt, ap);
    va_end(ap);
    vf_str b = { 0 };
    vf_str_printf(&b, "dso: %s\ncontext: %s\nmismatch: %s\n", dso_path, cur_what, msg);
    vf_violation(sig, b.s);
    vf_str_free(&b);
}
static bool check_data(void)
{
    vf_count(CT_DATA_SNAPSHOTS, 1);
    for (int i = 0; i < nwseg; i++)
        if (memcmp(wseg[i].copy, wseg[i].addr, wseg[i].len)) {
            size_t k = 0;
            while (wseg[i].copy[k] == wseg[i].addr[k]) k++;
            violation("footprint:writable-static-data-modified", "a library call modified the shared object's writable segment %d at offset %zu (%zu bytes long)", i, k, wseg[i].len);
            memcpy(wseg[i].copy, wseg[i].addr, wseg[i].len);
            return false;
        }
    return true;
}
#define LIBCALL(expr) (in_lib = 1, vf_progress++, vf_count(CT_CALLS, 1), (expr))
#define LIBEND() (in_lib = 0)

/* ------------------------------------------------------------------ documents */
static uint8_t DOC[1 << 17];
static size_t tower_objects(int k) { size_t n = 0; for (int i = 0; i < k; i++) { DOC[n++] = 0x40; DOC[n++] = 0x14; DOC[n++] = 1; DOC[n++] = 'a'; } DOC[n++] = 0x10; DOC[n++] = 1; for (int i = 0; i < k; i++) DOC[n++] = 0x41; return n; }
static size_t tower_arrays(int k) { size_t n = 0; for (int i = 0; i < k; i++) DOC[n++] = 0x42; DOC[n++] = 0x10; DOC[n++] = 1; for (int i = 0; i < k; i++) DOC[n++] = 0x43; return n; }
static size_t flat_array(int cnt) { size_t n = 0; DOC[n++] = 0x42; for (int i = 0; i < cnt; i++) { DOC[n++] = 0x10; DOC[n++] = 1; DOC[n++] = 0x14; DOC[n++] = 1; DOC[n++] = 's'; DOC[n++] = 0x46; for (int j = 0; j < 8; j++) DOC[n++] = j == 7 ? 0x3f : (j == 6 ? 0xf0 : 0); DOC[n++] = 0x18; DOC[n++] = 2; DOC[n++] = 0xab; DOC[n++] = 0xcd; } DOC[n++] = 0x43; return n; }
static size_t field_list(int cnt)
{
    size_t n = 0;
    DOC[n++] = 0x40;
    for (int i = 0; i < cnt; i++) { DOC[n++] = 0x14; DOC[n++] = 3; DOC[n++] = (uint8_t) ('a' + i / 676 % 26); DOC[n++] = (uint8_t) ('a' + i / 26 % 26); DOC[n++] = (uint8_t) ('a' + i % 26); DOC[n++] = 0x10; DOC[n++] = 1; }
    DOC[n++] = 0x41;
    return n;
}

static size_t payload_doc(int n) { size_t k = 0; DOC[k++] = 0x42; DOC[k++] = n <= 127 ? 0x18 : n <= 32767 ? 0x19 : 0x1a; DOC[k++] = (uint8_t) n; if (n > 127) DOC[k++] = (uint8_t) (n >> 8); if (n > 32767) { DOC[k++] = (uint8_t) (n >> 16); DOC[k++] = 0; } for (int i = 0; i < n; i++) DOC[k++] = (uint8_t) (i * 7 + 1); DOC[k++] = 0x10; DOC[k++] = 1; DOC[k++] = 0x43; return k; }

/* ------------------------------------------------------------------ painted stack */
#define STK (1 << 20)
static uint8_t *stk;
typedef struct { int entry; size_t len; int kind; int par; } job_t;
static binson_state BIGSTATE[255];
static char *textbuf;
static volatile uint64_t sink;
enum { E_VERIFY, E_TRAVERSE, E_TOSTRING_NULL, E_TOSTRING, E_PRINT, E_LOOKUPS, E_RAW_WRITER, E_WRITE_PAYLOAD, E_NENTRY };
static const char *const entry_name[E_NENTRY] = { "verify", "full traversal (next / go_into / leave)", "to_string(NULL)", "to_string(buffer)", "print", "field lookups (hits and misses)", "get_raw + writer", "writer: string / bytes / raw of n bytes from a disjoint source and from sources overlapping the destination" };
static int traverse_kind;
static void traverse_all(binson_parser *p)
{
    /* iterative full traversal: enter every container, then leave */
    int depth = 0;
    char kinds[600];
    bool r = traverse_kind == VK_OBJ ? p_binson_parser_go_into_object(p) : p_binson_parser_go_into_array(p);
    if (!r) return;
    kinds[depth++] = traverse_kind == VK_OBJ ? 'O' : 'A';
    while (depth > 0) {
        if (p_binson_parser_next(p)) {
            binson_type t = p->current_state->current_type;
            if (t == BINSON_TYPE_OBJECT && depth < 590) { if (p_binson_parser_go_into_object(p)) kinds[depth++] = 'O'; }
            else if (t == BINSON_TYPE_ARRAY && depth < 590) { if (p_binson_parser_go_into_array(p)) kinds[depth++] = 'A'; }
            else sink += (uint64_t) p_binson_parser_get_integer(p);
        } else {
            depth--;
            if (kinds[depth] == 'O') p_binson_parser_leave_object(p); else p_binson_parser_leave_array(p);
            if (p->error_flags) return;
        }
    }
}
static void *job_thread(void *arg)
{
    job_t *j = (job_t *) arg;
    binson_parser p;
    memset(&p, 0, sizeof p);
    p.state = BIGSTATE; p.max_depth = 255;
    bool ok = j->kind == VK_OBJ ? p_binson_parser_init_object(&p, DOC, j->len) : p_binson_parser_init_array(&p, DOC, j->len);
    if (!ok) return (void *) 1;
    size_t sz;
    switch (j->entry) {
    case E_VERIFY: if (!p_binson_parser_verify(&p)) return (void *) 1; break;
    case E_TRAVERSE: traverse_kind = j->kind; traverse_all(&p); if (p.error_flags) return (void *) 1; break;
    case E_TOSTRING_NULL: sz = 0; p_binson_parser_to_string(&p, NULL, &sz, false); if (sz == 0) return (void *) 1; break;
    case E_TOSTRING: sz = 1 << 20; if (!p_binson_parser_to_string(&p, textbuf, &sz, false)) return (void *) 1; break;
    case E_PRINT: if (!p_binson_parser_print(&p)) return (void *) 1; break;
    case E_LOOKUPS: {
        if (!p_binson_parser_go_into_object(&p)) return (void *) 1;
        /* a miss before every field, then the field */
        char q[3];
        for (int i = 0; i < 17576; i += 1) {
            q[0] = (char) ('a' + i / 676 % 26); q[1] = (char) ('a' + i / 26 % 26); q[2] = (char) ('a' + i % 26);
            p_binson_parser_field_with_length(&p, q, 2);        /* miss: a prefix */
            if (!p_binson_parser_field_with_length(&p, q, 3)) break;
        }
        break;
    }
    case E_WRITE_PAYLOAD: {
        /* n payload bytes through every length-carrying writer entry point: from a disjoint source, from a source staged inside the
         * destination just ahead of the cursor, and from the bytes just written (overlap from below) */
        static uint8_t out[1 << 18], src[1 << 16];
        size_t n = (size_t) j->par;
        binson_writer w;
        memset(src, 'x', sizeof src);
        p_binson_writer_init(&w, out, sizeof out);
        p_binson_write_array_begin(&w);
        p_binson_write_bytes(&w, src, n);
        p_binson_write_string_with_len(&w, (const char *) src, n);
        memset(out + w.buffer_used + 9, 'y', n);
        p_binson_write_bytes(&w, out + w.buffer_used + 9, n);
        p_binson_write_raw(&w, out + w.buffer_used - n / 2, n);
        p_binson_write_array_end(&w);
        if (w.error_flags) return (void *) 1;
        break;
    }
    case E_RAW_WRITER: {
        static uint8_t out[1 << 17];
        binson_writer w;
        bbuf raw;
        p_binson_writer_init(&w, out, sizeof out);
        if (j->kind == VK_OBJ) { if (!p_binson_parser_go_into_object(&p)) return (void *) 1; } else if (!p_binson_parser_go_into_array(&p)) return (void *) 1;
        if (p_binson_parser_next(&p)) { if (p.current_state->current_type == BINSON_TYPE_OBJECT || p.current_state->current_type == BINSON_TYPE_ARRAY) p_binson_parser_to_writer(&p, &w); }
        (void) raw;
        p_binson_write_integer(&w, -5); p_binson_write_double(&w, 1.0); p_binson_write_string_with_len(&w, "xyz", 3); p_binson_write_bytes(&w, (const uint8_t *) "xyz", 3);
        break;
    }
    }
    return NULL;
}
static long run_painted(job_t *j)
{
    memset(stk, 0xC5, STK);
    pthread_attr_t at;
    pthread_attr_init(&at);
    pthread_attr_setstack(&at, stk, STK);
    pthread_t t;
    void *rv = NULL;
    in_lib = 1;
    if (pthread_create(&t, &at, job_thread, j)) vf_die("pthread_create");
    pthread_join(t, &rv);
    in_lib = 0;
    pthread_attr_destroy(&at);
    vf_count(CT_STACK_RUNS, 1);
    vf_count(CT_CALLS, 1);
    if (rv) return -1;
    size_t k = 0;
    while (k < STK && stk[k] == 0xC5) k++;
    return (long) (STK - k);
}
static void stack_families(bool has_print)
{
    /* family: (generator, sizes) ; for each entry point valid for the family the high-water must not vary */
    static const int tower_k[] = { 2, 10, 100, 250 };
    static const int flat_n[] = { 8, 64, 512, 4096 };
    static const int field_n[] = { 8, 64, 512, 4096 };
    static const int payload_n[] = { 200, 1000, 20000, 40000 };      /* one bytes value of n bytes: a scratch buffer sized by the value would show here */
    for (int fam = 0; fam < 5; fam++) {
        for (int entry = 0; entry < E_NENTRY; entry++) {
            if (!has_print && (entry == E_TOSTRING_NULL || entry == E_TOSTRING || entry == E_PRINT)) continue;
            if (entry == E_LOOKUPS && fam != 3) continue;
            if (entry == E_RAW_WRITER && fam == 2) continue;    /* first element must be a container in every member */
            if (entry == E_RAW_WRITER && fam >= 3) continue;
            if (entry == E_WRITE_PAYLOAD && fam != 4) continue;
            long first = -2;
            char desc[200];
            vf_count(CT_STACK_FAMILIES, 1);
            for (int m = 0; m < 4; m++) {
                job_t j;
                j.entry = entry;
                j.par = 0;
                int par = fam <= 1 ? tower_k[m] : (fam == 2 ? flat_n[m] : fam == 3 ? field_n[m] : payload_n[m]);
                j.len = fam == 0 ? tower_objects(par) : fam == 1 ? tower_arrays(par) : fam == 2 ? flat_array(par) : fam == 3 ? field_list(par) : payload_doc(par);
                j.kind = (fam == 0 || fam == 3) ? VK_OBJ : VK_ARR;
                j.par = par;
                snprintf(desc, sizeof desc, "stack high-water of '%s' on family %s, parameter %d (%zu bytes)", entry_name[entry],
                         fam == 0 ? "nested objects" : fam == 1 ? "nested arrays" : fam == 2 ? "flat array of n elements" : fam == 3 ? "object with n fields" : "one bytes value of n bytes", par, j.len);
                cur_what = desc;
                run_painted(&j);                    /* warm-up: libc one-time initialisation off the measured run */
                snapshot_data();
                long hw = run_painted(&j);
                check_data();
                long hw2 = run_painted(&j);
                if (hw < 0) { violation("footprint:family-run-failed", "the library rejected a valid family member (%s)", desc); break; }
                if (hw != hw2) vf_die("stack measurement is not reproducible (%ld vs %ld) for %s", hw, hw2, desc);
                vf_max(CT_MAX_STACK, (uint64_t) hw);
                if (first == -2) first = hw;
                else if (hw != first) {
                    violation("footprint:stack-depends-on-input", "stack high-water %ld bytes at parameter %d but %ld bytes at the smallest member: stack depth depends on the input (%s)", hw, par, first, desc);
                    break;
                }
                if (vf_want_sample() && m == 3) vf_sample("%s: %ld bytes, identical for all 4 members of the family [%s]", desc, hw, dso_path);
            }
        }
    }
}

/* ------------------------------------------------------------------ product exploration: independent objects */
typedef struct { binson_parser p; binson_state st[4]; } pimg;
#define WCAP 6
typedef struct { binson_writer w; uint8_t out[WCAP]; } wimg;
typedef struct { pimg a, b; wimg w; } triple;
static const char *const pair_docs[] = { "4014016110011401624210024341", "4240140161100141421002434143", "4243" };
#define NPD 3
static uint8_t pd_bytes[NPD][64]; static size_t pd_len[NPD]; static int pd_kind[NPD];
static binson_parser LA, LB; static binson_state SA[4], SB[4]; static binson_writer LW; static uint8_t WOUT[WCAP];
static void load_triple(const triple *t)
{
    LA = t->a.p; memcpy(SA, t->a.st, sizeof SA); LB = t->b.p; memcpy(SB, t->b.st, sizeof SB); LW = t->w.w; memcpy(WOUT, t->w.out, sizeof WOUT);
}
static void save_triple(triple *t)
{
    memset(t, 0, sizeof *t);
    memcpy(&t->a.p, &LA, sizeof LA); memcpy(t->a.st, SA, sizeof SA); memcpy(&t->b.p, &LB, sizeof LB); memcpy(t->b.st, SB, sizeof SB); memcpy(&t->w.w, &LW, sizeof LW); memcpy(t->w.out, WOUT, sizeof WOUT);
}
enum { PO_NEXT, PO_INTO_OBJ, PO_INTO_ARR, PO_LEAVE_ARR, PO_FIELD_B, PO_VERIFY, PO_TOSTR, PO_P2W, PO_N, PO_LEAVE_OBJ = 100, PO_RAW };
static const char *const po_name[PO_N] = { "next", "go_into_object", "go_into_array", "leave_array", "field(b)", "verify", "to_string", "to_writer" };
static bool has_print_g;
static void par_op(binson_parser *p, int op)
{
    bbuf raw;
    char txt[256];
    size_t sz = sizeof txt;
    in_lib = 1; vf_progress++; vf_count(CT_CALLS, 1);
    switch (op) {
    case PO_NEXT: p_binson_parser_next(p); break;
    case PO_INTO_OBJ: p_binson_parser_go_into_object(p); break;
    case PO_INTO_ARR: p_binson_parser_go_into_array(p); break;
    case PO_LEAVE_OBJ: p_binson_parser_leave_object(p); break;
    case PO_LEAVE_ARR: p_binson_parser_leave_array(p); break;
    case PO_FIELD_B: if (p->depth > 0 && (p->state[p->depth - 1].flags & 3)) p_binson_parser_field_with_length(p, "b", 1); break;
    case PO_VERIFY: p_binson_parser_verify(p); break;
    case PO_RAW: p_binson_parser_get_raw(p, &raw); break;
    case PO_TOSTR: if (has_print_g) p_binson_parser_to_string(p, txt, &sz, false); break;
    case PO_P2W: if (LW.buffer_used < WCAP) p_binson_parser_to_writer(p, &LW); break;   /* the counter is unbounded: the harness stops feeding a full writer */
    }
    in_lib = 0;
}
static void wr_op(int op)
{
    in_lib = 1; vf_progress++; vf_count(CT_CALLS, 1);
    switch (op) {
    case 0: if (LW.buffer_used < WCAP) p_binson_write_integer(&LW, 300); break;
    case 1: if (LW.buffer_used < WCAP) p_binson_write_string_with_len(&LW, "hello", 5); break;
    case 2: p_binson_writer_init(&LW, WOUT, sizeof WOUT); break;
    case 3: p_binson_writer_verify(&LW); break;
    }
    in_lib = 0;
}
static void explore_pair(int da, int db)
{
    vf_set S, SUCC;
    vf_set_init(&S, sizeof(triple));
    /* successor table: (object image before, op) -> image after, must be a function: independent of the other objects */
    typedef struct { pimg before; int op; int who; pimg after; } succ_t;
    vf_set_init(&SUCC, offsetof(succ_t, after));
    succ_t *succ_after = NULL; size_t succ_cap = 0;
    memset(&LA, 0, sizeof LA); memset(&LB, 0, sizeof LB); memset(SA, 0, sizeof SA); memset(SB, 0, sizeof SB); memset(WOUT, 0x11, sizeof WOUT);
    LA.state = SA; LA.max_depth = 4; LB.state = SB; LB.max_depth = 4;
    if (pd_kind[da] == VK_OBJ) p_binson_parser_init_object(&LA, pd_bytes[da], pd_len[da]); else p_binson_parser_init_array(&LA, pd_bytes[da], pd_len[da]);
    if (pd_kind[db] == VK_OBJ) p_binson_parser_init_object(&LB, pd_bytes[db], pd_len[db]); else p_binson_parser_init_array(&LB, pd_bytes[db], pd_len[db]);
    p_binson_writer_init(&LW, WOUT, sizeof WOUT);
    triple t0, t;
    save_triple(&t0);
    bool isnew;
    vf_set_insert(&S, &t0, &isnew);
    char desc[200];
    snapshot_data();
    for (size_t s = 0; s < S.n; s++) {
        for (int who = 0; who < 3; who++) {
            int nops = who == 2 ? 3 : PO_N;
            for (int op = 0; op < nops; op++) {
                memcpy(&t, vf_set_at(&S, s), sizeof t);
                load_triple(&t);
                snprintf(desc, sizeof desc, "two parsers (%s | %s) and a writer, operation %s on %s", pair_docs[da], pair_docs[db], who == 2 ? "writer-op" : po_name[op], who == 0 ? "parser A" : who == 1 ? "parser B" : "the writer");
                cur_what = desc;
                if (who == 0) par_op(&LA, op); else if (who == 1) par_op(&LB, op); else wr_op(op);
                vf_count(CT_PAIR_TRANS, 1);
                check_data();
                triple u;
                save_triple(&u);
                /* the objects not operated on must be byte-identical (to_writer legitimately changes the writer) */
                bool a_same = !memcmp(&u.a, &t.a, sizeof u.a), b_same = !memcmp(&u.b, &t.b, sizeof u.b), w_same = !memcmp(&u.w, &t.w, sizeof u.w);
                bool bad = (who == 0 && (!b_same || (!w_same && op != PO_P2W))) || (who == 1 && (!a_same || (!w_same && op != PO_P2W))) || (who == 2 && (!a_same || !b_same));
                if (bad) { violation("footprint:objects-interfere", "%s changed the image of an object it was not given", desc); continue; }
                /* same (image, op) => same successor, whatever the other objects hold */
                if (who < 2 && op != PO_P2W) {
                    succ_t k;
                    memset(&k, 0, sizeof k);
                    k.before = who == 0 ? t.a : t.b; k.op = op; k.who = 0;
                    /* A and B live at different addresses: compare successors per object identity */
                    k.who = who;
                    size_t idx = vf_set_insert(&SUCC, &k, &isnew);
                    if (idx >= succ_cap) { succ_cap = succ_cap ? succ_cap * 2 : 1024; succ_after = (succ_t *) realloc(succ_after, succ_cap * sizeof *succ_after); }
                    vf_count(CT_SUCC_CHECKS, 1);
                    if (isnew) succ_after[idx].after = who == 0 ? u.a : u.b;
                    else if (memcmp(&succ_after[idx].after, who == 0 ? &u.a : &u.b, sizeof(pimg)))
                        violation("footprint:successor-depends-on-other-object", "%s: the result differs from the result of the same call in another context", desc);
                }
                vf_set_insert(&S, &u, &isnew);
            }
        }
    }
    vf_count(CT_PAIR_STATES, S.n);
    vf_count(CT_STATES, S.n);
    vf_count(CT_PAIRS, 1);
    if (vf_want_sample()) vf_sample("product of parser on %s, parser on %s and a writer: %zu joint states explored to a fixpoint [%s]", pair_docs[da], pair_docs[db], S.n, dso_path);
    free(succ_after);
    vf_set_free(&S); vf_set_free(&SUCC);
}

static int NDSO; static char **DSOS;
static int pairs_done;
static void worker(int w, int W, uint64_t start)
{
    if (start) return;     /* a crashed configuration is reported; the rest of this worker's share is not resumed */
    if (!freopen("/dev/null", "w", stdout)) vf_die("freopen");
    setvbuf(stdout, NULL, _IONBF, 0);
    stk = (uint8_t *) syscall(SYS_mmap, NULL, (size_t) STK, PROT_READ | PROT_WRITE, MAP_PRIVATE | MAP_ANONYMOUS, -1, 0);
    textbuf = (char *) __libc_malloc(1 << 20);
    for (int i = 0; i < NPD; i++) { pd_len[i] = (size_t) vf_unhex(pd_bytes[i], 64, pair_docs[i]); pd_kind[i] = pd_bytes[i][0] == 0x40 ? VK_OBJ : VK_ARR; }
    for (int d = 0; d < NDSO; d++) {
        vf_set_index((uint64_t) d);
        dso_path = DSOS[d];
        void *h = dlopen(dso_path, RTLD_NOW | RTLD_LOCAL);
        if (!h) vf_die("dlopen %s: %s", dso_path, dlerror());
#define X(ret, name, args) p_##name = (ret (*) args) dlsym(h, #name); if (!p_##name) vf_die("symbol %s missing in %s", #name, dso_path);
        API_LIST(X)
#undef X
        p_binson_parser_to_string = (bool (*)(binson_parser *, char *, size_t *, bool)) dlsym(h, "binson_parser_to_string");
        p_binson_parser_print = (bool (*)(binson_parser *)) dlsym(h, "binson_parser_print");
        bool has_print = p_binson_parser_to_string && p_binson_parser_print;
        has_print_g = has_print;
        nwseg = 0; dso_text_lo = dso_text_hi = 0;
        dl_iterate_phdr(phdr_cb, NULL);
        if (!dso_text_hi) vf_die("cannot find the segments of %s", dso_path);
        for (int i = 0; i < nwseg; i++) { wseg[i].copy = NULL; vf_max(CT_DATA_BYTES, wseg[i].len); }
        uint64_t a0 = alloc_from_dso, l0 = alloc_in_lib;
        if (d % W == w) { vf_count(CT_DSOS, 1); stack_families(has_print); }
        for (int a = 0; a < NPD; a++) for (int b = 0; b < NPD; b++) if ((d * NPD * NPD + a * NPD + b) % W == w) { explore_pair(a, b); pairs_done++; }
        vf_count(CT_ALLOC_DURING_CALLS, alloc_in_lib - l0);
        if (alloc_from_dso != a0) {
            vf_count(CT_ALLOC_FROM_DSO, alloc_from_dso - a0);
            cur_what = "any of the runs above";
            violation("footprint:allocator-called-from-library", "%llu allocator calls (malloc/calloc/realloc/free/memalign/mmap/sbrk) were made from the library's text", (unsigned long long) (alloc_from_dso - a0));
        }
        /* keep the DSO loaded: dlclose would unmap text that handlers may still reference */
    }
}

int main(int argc, char **argv)
{
    /* arguments after "--" are the shared objects */
    int split = argc;
    for (int i = 1; i < argc; i++) if (!strcmp(argv[i], "--")) { split = i; break; }
    NDSO = argc - split - 1; DSOS = argv + split + 1;
    vf_main_init(split, argv, "footprint", ctr_names);
    if (strcmp(vf_g.prop, "C17")) vf_die("footprint decides C17");
    if (NDSO <= 0) vf_die("usage: footprint --prop C17 --tier T -- lib1.so lib2.so ...");
    int deaths = vf_run_workers(worker);
    const char *cg = getenv("VERIF_CALLGRAPH_JSON");
    static char extra[6000];
    snprintf(extra, sizeof extra, "\"call_graph_search\": %s", cg && cg[0] ? cg : "\"not run\"");
    static char bound[900];
    snprintf(bound, sizeof bound,
             "%d shared-object builds of the library ({gcc,clang} x {-O0,-O2,-Os}, with and without print); per build: 5 scaling families (nested objects 2/10/100/250, nested arrays "
             "2/10/100/250, flat array of 8..4096 x 4 elements, object with 8..4096 fields, one bytes value of 200..40000 bytes) x up to 7 entry points on a painted 1 MiB thread stack; product state graph of two parsers and a "
             "writer on all 9 ordered pairs of 3 documents, all interleavings of 8+8+3 operations to a fixpoint; allocator interposition and writable-segment comparison across every call; "
             "exhaustive search of the compiler-emitted call graph (gcc -fcallgraph-info) from every public entry point",
             NDSO);
    static const char *const assumptions[] = {
        "the call-graph layer searches a compiler artefact (gcc .ci/.su files, nm), not executions; it shows all code of the two translation units",
        "libc functions the library calls (memset, memcmp, memmove, strlen, printf, snprintf) are outside the property; their own stack use is part of the measured high-water mark and is kept constant by fixed leaf values and an unbuffered stdout",
        "the user's callback (parser->cb) is the caller's code and is not part of the library's call graph"
    };
    static const int must[] = { CT_DSOS, CT_DATA_SNAPSHOTS, CT_STACK_RUNS, CT_STACK_FAMILIES, CT_PAIR_STATES, CT_SUCC_CHECKS };
    vf_evidence_spec es;
    memset(&es, 0, sizeof es);
    es.c_states = CT_STATES; es.c_transitions = CT_CALLS; es.c_validated = CT_CALLS;
    es.bound = bound; es.extra_json = extra;
    es.rule = "per build configuration: explicit-state product search over byte images of two parsers and a writer; scaling families on a painted stack; every library call bracketed by allocator and data-segment monitors";
    es.assumptions = assumptions; es.nassumptions = 3;
    es.must_be_nonzero = must; es.n_must = 6;
    return vf_finish(&es, deaths);
}
