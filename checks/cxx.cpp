/* cxx.cpp - C15: the C++ Binson class: lossless round trip, exceptions instead of crashes.
 * (a) every enumerated byte string (token sequences incl. the empty and 1-byte buffers, valid documents and all
 *     their one-deviation mutants) through each of the three deserialize overloads, under ASan+UBSan, with the
 *     wrapper compiled so that its automatic variables start from a fixed garbage pattern (two builds: zero and
 *     0xFE pattern): returns normally <=> the reference recogniser accepts the bytes as an object at depth 10,
 *     otherwise a std::exception; then serialize(deserialize(bytes)) == bytes.
 * (b) every enumerated tree built through put() in EVERY insertion order: serialize() == reference encoding,
 *     verify accepts it, deserialize(serialize(x)) == x; documents > 1000 bytes (second pass of serialize()). */
extern "C" {
#include "../lib/vf_util.h"
#include "../lib/vf_ref.h"
#include "../lib/vf_gen.h"
#include "../lib/vf_run.h"
}
#include "binson.hpp"
#include <exception>
#include <algorithm>

enum { CT_INPUTS, CT_CALLS, CT_RETURNED, CT_THREW, CT_EMPTY_INPUT, CT_INIT_REJECTED_INPUTS, CT_RESERIALIZED, CT_TREES, CT_ORDERS, CT_ROUNDTRIPS, CT_BIG_DOCS, CT_MUT, CT_TOKSEQ,
       CT_MAXPERM, CT_STATES };
static const char *const ctr_names[VF_NCTR] = {
    "byte_inputs", "deserialize_calls", "returned_normally", "threw_std_exception", "empty_vector_inputs", "inputs_rejected_by_init", "serialize_of_deserialized_compared",
    "trees", "tree_x_insertion_order", "deserialize_serialize_roundtrips", "documents_over_1000_bytes", "mutant_inputs", "token_sequences", "max_insertion_orders_one_tree",
    "input_overload_pairs"
};

static const uint8_t *IN; static size_t INLEN; static const char *LABEL; static int OVERLOAD = -1; static int PHASE;
static void describe(vf_str *o)
{
    vf_str_printf(o, "phase: %s\noverload: %d\ninput_len: %zu\ninput_hex: ", PHASE == 0 ? "bytes" : "tree", OVERLOAD, INLEN);
    if (INLEN <= 300000) vf_str_hex(o, IN, INLEN); else vf_str_printf(o, "(long)");
    vf_str_printf(o, "\nlabel: %s\n", LABEL ? LABEL : "");
}
static char why[300], sigk[100];

/* outcome of one deserialize call: 1 returned, 2 std::exception, 3 other exception */
/* prior use of the same overload in the same process: a successful deserialize of another document whose buffer is
 * then released. A wrapper that kept anything across calls (a static parser, a cached pointer) would now act on it. */
static void prior_use(int ov)
{
    static const uint8_t other[] = { 0x40, 0x14, 0x01, 'p', 0x14, 0x01, 'q', 0x41 };
    Binson scratch;
    uint8_t *c = (uint8_t *) malloc(sizeof other);
    memcpy(c, other, sizeof other);
    try {
        if (ov == 0) { std::vector<uint8_t> v(c, c + sizeof other); scratch.deserialize(v); }
        else if (ov == 1) scratch.deserialize(c, sizeof other);
        else { BINSON_PARSER_DEF(p); (void) binson_parser_init(&p, c, sizeof other); scratch.deserialize(&p); }
    } catch (...) { }
    memset(c, 0xDD, sizeof other);
    free(c);
}
static int PHIST;
static int call_overload(int ov, const uint8_t *b, size_t n, Binson &out)
{
    OVERLOAD = ov;
    prior_use(ov);
    vf_progress++;
    vf_count(CT_CALLS, 1);
    try {
        if (ov == 0) {
            std::vector<uint8_t> v(b, b + n);
            out.deserialize(v);
        } else if (ov == 1) {
            uint8_t *c = (uint8_t *) malloc(n ? n : 1);
            if (n) memcpy(c, b, n);
            try { out.deserialize(n ? c : c + 1, n); } catch (...) { free(c); throw; }
            free(c);
        } else {
            uint8_t *c = (uint8_t *) malloc(n ? n : 1);
            if (n) memcpy(c, b, n);
            BINSON_PARSER_DEF(p);
            bool inited = binson_parser_init(&p, n ? c : c + 1, n);
            /* what the caller did with ITS parser before handing it over (the wrapper rewinds it): 0 nothing, 1 a partial traversal,
             * 2 an error raised without consuming a byte (NULL name lookup), 3 a getter before the first next, 4 a verify */
            if (inited) switch (PHIST) {
                case 1: binson_parser_go_into_object(&p); binson_parser_next(&p); break;
                case 2: binson_parser_field_with_length(&p, NULL, 3); break;
                case 3: (void) binson_parser_get_name(&p); (void) binson_parser_get_integer(&p); break;
                case 4: (void) binson_parser_verify(&p); break;
                default: break;
            }
            try { out.deserialize(&p); } catch (...) { free(c); throw; }
            free(c);
        }
        return 1;
    } catch (const std::exception &) {
        return 2;
    } catch (...) {
        return 3;
    }
}

static bool check_bytes_once(const uint8_t *b, size_t n, bool counting)
{
    int ref = vf_ref_decode(b, n, VK_OBJ, 10, NULL);
    for (int ovh = 0; ovh < 7; ovh++) {
        int ov = ovh < 3 ? ovh : 2;
        PHIST = ovh < 3 ? 0 : ovh - 2;
        Binson x;
        x.put("zz_left_over_from_an_earlier_use", BinsonValue(7));      /* the object is REUSED: deserialize must replace, not merge */
        /* ... also under keys the document itself may use (a stale value must not survive under the same key) */
        x.put(std::string(), BinsonValue(std::string("stale"))); x.put("a", Binson().put("stale", BinsonValue(true))); x.put(std::string("\0k", 2), BinsonValue(8.5));
        x.put("ab", BinsonValue(std::vector<BinsonValue>({ BinsonValue(1) }))); x.put("\x80", BinsonValue(9)); x.put("A", BinsonValue(false)); x.put("b", BinsonValue(10));
        int r = call_overload(ov, b, n, x);
        if (counting) { vf_count(CT_STATES, 1); vf_count(r == 1 ? CT_RETURNED : CT_THREW, 1); }
        if (r == 3) { snprintf(why, sizeof why, "overload %d threw something that is not a std::exception", ov); snprintf(sigk, sizeof sigk, "bytes:non-std-exception:ov%d", ov); return false; }
        if ((r == 1) != (ref == VR_OK)) {
            snprintf(why, sizeof why, "overload %d (parser history %d) %s, but the reference recogniser (object, depth 10) says %s", ov, PHIST, r == 1 ? "returned normally" : "threw", vf_vr_name[ref]);
            snprintf(sigk, sizeof sigk, "bytes:%s:ov%d", r == 1 ? "accepts-invalid" : "rejects-valid", ov);
            return false;
        }
        if (r == 1) {
            std::vector<uint8_t> s = x.serialize();
            if (counting) vf_count(CT_RESERIALIZED, 1);
            if (s.size() != n || (n && memcmp(s.data(), b, n))) {
                snprintf(why, sizeof why, "serialize(deserialize(bytes)) differs from bytes (overload %d, %zu vs %zu bytes)", ov, s.size(), n);
                snprintf(sigk, sizeof sigk, "bytes:reserialize-differs");
                return false;
            }
        }
    }
    return true;
}
static void report(void)
{
    char sig[200];
    snprintf(sig, sizeof sig, "cxx:%s", sigk);
    vf_str b = { 0, 0, 0 };
    describe(&b);
    vf_str_printf(&b, "mismatch: %s\n", why);
    vf_violation(sig, b.s);
    vf_str_free(&b);
}
static void check_bytes(const uint8_t *b, size_t n, const char *label)
{
    IN = b; INLEN = n; LABEL = label; PHASE = 0;
    vf_count(CT_INPUTS, 1);
    if (n == 0) vf_count(CT_EMPTY_INPUT, 1);
    if (n < 2 || b[0] != 0x40 || b[n - 1] != 0x41) vf_count(CT_INIT_REJECTED_INPUTS, 1);
    if (!check_bytes_once(b, n, true)) {
        char w1[300];
        snprintf(w1, sizeof w1, "%s", why);
        if (check_bytes_once(b, n, false)) vf_die("cxx violation did not reproduce (%s)", w1);
        if (strcmp(w1, why)) snprintf(why, sizeof why, "%.230s [details vary from run to run with identical inputs]", w1);
        report();
    }
}

/* ---------------- (b) trees */
static const vf_doc *D;
static std::string node_name(int c) { return std::string((const char *) D->bytes + D->n[c].name_off, (size_t) D->n[c].name_len); }
static Binson mkobject(int id, unsigned perm);
static BinsonValue mkvalue(int c, unsigned perm)
{
    const vf_node *x = &D->n[c];
    switch (x->kind) {
    case VK_BOOL: return BinsonValue(x->bval);
    case VK_INT: return BinsonValue((int64_t) x->ival);
    case VK_DBL: { double v; memcpy(&v, &x->dbits, 8); return BinsonValue(v); }
    case VK_STR: return BinsonValue(std::string((const char *) D->bytes + x->pay_off, (size_t) x->pay_len));
    case VK_BYT: return BinsonValue(std::vector<uint8_t>(D->bytes + x->pay_off, D->bytes + x->pay_off + x->pay_len));
    case VK_OBJ: return BinsonValue(mkobject(c, perm));
    case VK_ARR: {
        std::vector<BinsonValue> a;
        for (int ch = x->first; ch >= 0; ch = D->n[ch].next) a.push_back(mkvalue(ch, perm));
        return BinsonValue(a);
    }
    default: vf_die("bad kind");
    }
}
static unsigned factorial(unsigned k) { unsigned f = 1; for (unsigned i = 2; i <= k; i++) f *= i; return f; }
static Binson mkobject(int id, unsigned perm)
{
    std::vector<int> kids;
    for (int ch = D->n[id].first; ch >= 0; ch = D->n[ch].next) kids.push_back(ch);
    /* the perm-th permutation (Lehmer code) of the children = insertion order */
    std::vector<int> order;
    unsigned k = (unsigned) kids.size(), code = k ? perm % factorial(k) : 0;
    std::vector<int> pool = kids;
    for (unsigned i = k; i >= 1; i--) { unsigned f = factorial(i - 1), idx = code / f; code %= f; order.push_back(pool[idx]); pool.erase(pool.begin() + idx); }
    Binson b;
    /* every second insertion order: each key first receives a decoy of another type through one of the three put overloads; the
     * real put that follows must replace it */
    if (perm & 1)
        for (int c : order) {
            const vf_node *x = &D->n[c];
            if (x->kind == VK_INT) b.put(node_name(c), Binson().put("decoy", BinsonValue(1)));
            else if (x->kind == VK_OBJ) b.put(node_name(c), (const uint8_t *) "dd", 2);
            else b.put(node_name(c), BinsonValue((int64_t) 77));
        }
    for (int c : order) {
        const vf_node *x = &D->n[c];
        if (x->kind == VK_OBJ && (c & 1)) b.put(node_name(c), mkobject(c, perm));              /* put(key, Binson) */
        else if (x->kind == VK_BYT && (c & 1)) b.put(node_name(c), D->bytes + x->pay_off, (size_t) x->pay_len);  /* put(key, data, size) */
        else b.put(node_name(c), mkvalue(c, perm));
    }
    return b;
}
static bool same_value(const BinsonValue &v, int c);
static bool same_object(const Binson &b, int id)
{
    int ch = D->n[id].first;
    for (auto it = b.begin(); it != b.end(); ++it, ch = D->n[ch].next) {
        if (ch < 0) return false;
        if (it->first != node_name(ch)) return false;
        if (!same_value(it->second, ch)) return false;
    }
    return ch < 0;
}
static bool same_value(const BinsonValue &v, int c)
{
    const vf_node *x = &D->n[c];
    switch (x->kind) {
    case VK_BOOL: return v.myType() == BinsonValue::Types::boolType && v.getBool() == x->bval;
    case VK_INT: return v.myType() == BinsonValue::Types::intType && v.getInt() == x->ival;
    case VK_DBL: { if (v.myType() != BinsonValue::Types::doubleType) return false; double d = v.getDouble(); return memcmp(&d, &x->dbits, 8) == 0; }
    case VK_STR: return v.myType() == BinsonValue::Types::stringType && v.getString() == std::string((const char *) D->bytes + x->pay_off, (size_t) x->pay_len);
    case VK_BYT: return v.myType() == BinsonValue::Types::binaryType && v.getBin() == std::vector<uint8_t>(D->bytes + x->pay_off, D->bytes + x->pay_off + x->pay_len);
    case VK_OBJ: return v.myType() == BinsonValue::Types::objectType && same_object(v.getObject(), c);
    case VK_ARR: {
        if (v.myType() != BinsonValue::Types::arrayType) return false;
        const std::vector<BinsonValue> &a = v.getArray();
        size_t i = 0;
        for (int ch = x->first; ch >= 0; ch = D->n[ch].next, i++) { if (i >= a.size() || !same_value(a[i], ch)) return false; }
        return i == a.size();
    }
    default: return false;
    }
}
static unsigned max_perms(const vf_doc *d)
{
    unsigned m = 1;
    for (int i = 0; i < d->nn; i++) if (d->n[i].kind == VK_OBJ && d->n[i].nch <= 5) m = std::max(m, factorial((unsigned) d->n[i].nch));
    return m;
}
static bool check_tree_once(const vf_doc *d, bool counting)
{
    D = d;
    unsigned np = max_perms(d);
    if (np < 2) np = 2;         /* odd orders run the overwrite variant */
    if (counting) vf_max(CT_MAXPERM, np);
    for (unsigned perm = 0; perm < np; perm++) {
        OVERLOAD = (int) perm;
        vf_progress++;
        if (counting) { vf_count(CT_ORDERS, 1); vf_count(CT_STATES, 1); }
        try {
            Binson b = mkobject(0, perm);
            std::vector<uint8_t> s = b.serialize();
            if (s.size() != d->len || memcmp(s.data(), d->bytes, d->len)) {
                snprintf(why, sizeof why, "serialize() with insertion order #%u gives %zu bytes, not the canonical %zu-byte encoding", perm, s.size(), d->len);
                snprintf(sigk, sizeof sigk, "tree:serialize-not-canonical");
                return false;
            }
            BINSON_PARSER_DEF(p);
            if (!binson_parser_init(&p, s.data(), s.size()) || !binson_parser_verify(&p)) {
                snprintf(why, sizeof why, "verify rejects serialize() output"); snprintf(sigk, sizeof sigk, "tree:verify-rejects"); return false;
            }
            for (int ov = 0; ov < 2; ov++) {
                Binson back;
                if (ov == 0) back.deserialize(s); else back.deserialize(s.data(), s.size());
                if (counting) vf_count(CT_ROUNDTRIPS, 1);
                if (!same_object(back, 0)) { snprintf(why, sizeof why, "deserialize(serialize(x)) != x (overload %d, insertion order #%u)", ov, perm); snprintf(sigk, sizeof sigk, "tree:roundtrip-differs"); return false; }
                std::vector<uint8_t> s2 = back.serialize();
                if (s2 != s) { snprintf(why, sizeof why, "serialize(deserialize(serialize(x))) changed"); snprintf(sigk, sizeof sigk, "tree:reserialize-differs"); return false; }
            }
        } catch (const std::exception &e) {
            snprintf(why, sizeof why, "exception on a valid tree: %s", e.what()); snprintf(sigk, sizeof sigk, "tree:exception"); return false;
        }
    }
    return true;
}
static void check_tree(const vf_doc *d, const char *label)
{
    IN = d->bytes; INLEN = d->len; LABEL = label; PHASE = 1;
    vf_count(CT_TREES, 1);
    if (d->len > 1000) vf_count(CT_BIG_DOCS, 1);
    if (!check_tree_once(d, true)) {
        char w1[300];
        snprintf(w1, sizeof w1, "%s", why);
        if (check_tree_once(d, false)) vf_die("cxx tree violation did not reproduce");
        if (strcmp(w1, why)) snprintf(why, sizeof why, "%.230s [details vary from run to run with identical inputs]", w1);
        report();
    }
}

static int g_w, g_W; static uint64_t g_start, g_index;
static bool take(void)
{
    uint64_t i = g_index++;
    if (i < g_start || (int) (i % (uint64_t) g_W) != g_w) return false;
    vf_set_index(i);
    return true;
}
static void on_seq(vf_tokenum *e, void *u)
{
    (void) u;
    if (!take()) return;
    if (vf_deadline_passed()) { e->stop = true; return; }
    vf_count(CT_TOKSEQ, 1);
    check_bytes(e->buf, e->len, vf_tokenum_label(e));
}
static char mlabel[300];
static void on_mut(const uint8_t *m, size_t n, const char *what, void *u)
{
    if (!take()) return;
    snprintf(mlabel, sizeof mlabel, "mutant of %s: %s", vf_shape((const vf_doc *) u), what);
    vf_count(CT_MUT, 1);
    check_bytes(m, n, mlabel);
}
static uint8_t *mscratch;
static void on_doc_bytes(vf_gen *g, void *u)
{
    (void) u;
    if (take()) check_bytes(g->doc.bytes, g->doc.len, vf_shape(&g->doc));
    vf_mutants(g->doc.bytes, g->doc.len, mscratch, 4096, on_mut, &g->doc);
}
static void on_doc_tree(vf_gen *g, void *u)
{
    (void) u;
    if (!take()) return;
    if (vf_deadline_passed()) { g->stop = true; return; }
    if (vf_want_sample() && g->doc.n[0].nch >= 3) vf_sample("tree %s built through put() in all %u insertion orders", vf_shape(&g->doc), max_perms(&g->doc));
    check_tree(&g->doc, vf_shape(&g->doc));
}
static void on_doc_sib(vf_gen *g, void *u)
{
    (void) u;
    if (!take()) return;
    if (vf_deadline_passed()) { g->stop = true; return; }
    check_bytes(g->doc.bytes, g->doc.len, vf_shape(&g->doc));
    if (g->doc.root_kind == VK_OBJ) check_tree(&g->doc, vf_shape(&g->doc));
}
static void big_docs(void)
{
    /* documents over 1000 bytes: second pass of serialize(); 10 nested objects (the wrapper's limit) */
    static vf_doc d;
    static char blob[3000];
    for (size_t i = 0; i < sizeof blob; i++) blob[i] = (char) ('a' + i % 26);
    for (int variant = 0; variant < 4; variant++) {
        if (!take()) continue;
        vf_b_reset(&d);
        vf_b_open(&d, VK_OBJ);
        if (variant == 3) {     /* containers that START beyond the first-pass buffer of 1000 bytes */
            vf_b_name(&d, "a", 1); vf_b_blob(&d, VK_STR, blob, 1500);
            vf_b_name(&d, "b", 1); vf_b_open(&d, VK_OBJ); vf_b_name(&d, "c", 1); vf_b_int(&d, 1); vf_b_close(&d);
            vf_b_name(&d, "c", 1); vf_b_open(&d, VK_ARR); vf_b_open(&d, VK_OBJ); vf_b_name(&d, "d", 1); vf_b_int(&d, 2); vf_b_close(&d); vf_b_open(&d, VK_ARR); vf_b_close(&d); vf_b_close(&d);
        } else
        if (variant == 0) { vf_b_name(&d, "a", 1); vf_b_blob(&d, VK_STR, blob, 1200); vf_b_name(&d, "b", 1); vf_b_blob(&d, VK_BYT, blob, 2500); }
        else if (variant == 1) { vf_b_name(&d, "arr", 3); vf_b_open(&d, VK_ARR); for (int i = 0; i < 250; i++) vf_b_int(&d, 100000 + i); vf_b_close(&d); }
        else { for (int i = 0; i < 9; i++) { vf_b_name(&d, "n", 1); vf_b_open(&d, VK_OBJ); } vf_b_name(&d, "x", 1); vf_b_blob(&d, VK_STR, blob, 999); for (int i = 0; i < 9; i++) vf_b_close(&d); }
        vf_b_close(&d);
        check_tree(&d, variant == 0 ? "big: 1200-byte string + 2500 bytes" : variant == 1 ? "big: array of 250 int32" : variant == 2 ? "big: 10 nested objects with a 999-byte string" : "big: nested object and array after a 1500-byte string");
        check_bytes(d.bytes, d.len, "big document bytes");
    }
    /* payloads and keys with 2- and 4-byte length prefixes */
    static char huge[70000];
    for (size_t i = 0; i < sizeof huge; i++) huge[i] = (char) ('A' + i % 53);
    static const size_t lens[] = { 127, 128, 32767, 32768, 65535, 65536, 66000 };
    for (size_t li = 0; li < sizeof lens / sizeof lens[0]; li++) {
        if (!take()) continue;
        vf_b_reset(&d);
        vf_b_open(&d, VK_OBJ);
        vf_b_name(&d, huge, lens[li] < 40000 ? lens[li] : 300); vf_b_blob(&d, VK_STR, huge + 1, lens[li]);
        vf_b_name(&d, "z", 1); vf_b_open(&d, VK_ARR); vf_b_blob(&d, VK_BYT, huge + 2, lens[li]); vf_b_int(&d, -1); vf_b_close(&d);
        vf_b_close(&d);
        char lab[80];
        snprintf(lab, sizeof lab, "big: key/string/bytes of %zu bytes", lens[li]);
        check_tree(&d, lab);
        check_bytes(d.bytes, d.len, lab);
    }
    /* nesting around the wrapper's depth limit of 10: 11 and 12 nested objects must throw, 9 and 10 must round-trip */
    for (int k = 8; k <= 12; k++) {
        if (!take()) continue;
        vf_b_reset(&d);
        vf_b_open(&d, VK_OBJ);
        for (int i = 1; i < k; i++) { vf_b_name(&d, "n", 1); vf_b_open(&d, VK_OBJ); }
        vf_b_name(&d, "x", 1); vf_b_int(&d, k);
        for (int i = 1; i < k; i++) { vf_b_close(&d); }
        vf_b_close(&d);
        char lab[80];
        snprintf(lab, sizeof lab, "depth: %d nested objects", k);
        check_bytes(d.bytes, d.len, lab);
        /* and arrays inside: [[[...]]] 300 deep is beyond the array limit of 255 */
    }
    for (int k = 254; k <= 256; k++) {
        if (!take()) continue;
        vf_b_reset(&d);
        vf_b_open(&d, VK_OBJ); vf_b_name(&d, "a", 1);
        for (int i = 0; i < k; i++) vf_b_open(&d, VK_ARR);
        vf_b_int(&d, 1);
        for (int i = 0; i < k; i++) vf_b_close(&d);
        vf_b_close(&d);
        char lab[80];
        snprintf(lab, sizeof lab, "depth: %d nested arrays in a field", k);
        check_bytes(d.bytes, d.len, lab);
    }
}

static int L_TOK, N_BYTES, N_TREE;
static void worker(int w, int W, uint64_t start)
{
    g_w = w; g_W = W; g_start = start; g_index = 0;
    vf_fatal_describe = describe;
    mscratch = (uint8_t *) vf_xmalloc(4096);
    big_docs();
    vf_tokenum e;
    for (int frame = 0; frame <= 1; frame++) {
        memset(&e, 0, sizeof e);
        e.alpha = vf_tok_hostile; e.ntok = VF_NTOK_HOSTILE; e.maxlen = frame == 0 ? 2 : L_TOK; e.frame = frame == 0 ? 0 : VK_OBJ;
        e.cb = on_seq; e.w = 0; e.W = 1;
        vf_tokenum_run(&e);
    }
    static const int cls[] = { LC_INT8, LC_NEG32, LC_STR, LC_BYT, LC_DBL, LC_TRUE, LC_OBJ, LC_ARR };
    static const vf_name names[] = { { (const uint8_t *) "", 0 }, { (const uint8_t *) "\0k", 2 }, { (const uint8_t *) "a", 1 }, { (const uint8_t *) "aab", 3 }, { (const uint8_t *) "ab", 2 }, { (const uint8_t *) "\x80", 1 } };
    static vf_gen g;
    memset(&g, 0, sizeof g);
    g.root_kind = VK_OBJ; g.max_tokens = N_BYTES; g.classes = cls; g.nclasses = 8; g.names = names; g.nnames = 3; g.cb = on_doc_bytes;
    vf_gen_run(&g);
    static const int cls2[] = { LC_INT8, LC_INT64, LC_STR, LC_STR0, LC_STRNUL, LC_BYT, LC_BYT0, LC_DBL, LC_FALSE, LC_OBJ, LC_ARR };      /* incl. empty string / empty bytes (data() may be NULL) */
    memset(&g, 0, sizeof g);
    g.root_kind = VK_OBJ; g.max_tokens = N_TREE; g.classes = cls2; g.nclasses = 11; g.names = names; g.nnames = 6; g.max_obj_depth = 10; g.cb = on_doc_tree;
    vf_gen_run(&g);
    /* sibling family: every pair and triple of small sibling subtrees */
    memset(&g, 0, sizeof g);
    g.cb = on_doc_sib;
    vf_sibling_run(&g, 2);
}

/* --valgrind-subset: the inputs that init rejects (and the empty vector) through all overloads, in process;
 * run under valgrind --error-exitcode, whose "uninitialised value" report is the oracle for "acts on an uninitialised parser" */
static void vg_seq(vf_tokenum *e, void *u)
{
    (void) u;
    Binson x;
    for (int ov = 0; ov < 3; ov++) (void) call_overload(ov, e->buf, e->len, x);
}
static int valgrind_subset(void)
{
    vf_g.wid = 0;
    vf_tokenum e;
    memset(&e, 0, sizeof e);
    e.alpha = vf_tok_hostile; e.ntok = VF_NTOK_HOSTILE; e.maxlen = 1; e.frame = 0; e.cb = vg_seq; e.w = 0; e.W = 1;
    vf_tokenum_run(&e);
    static const uint8_t extra[][4] = { { 0x40, 0x41, 0x41, 0 }, { 0x40, 0x40, 0x41, 0 }, { 0x41, 0x40, 0, 0 }, { 0x40, 0x42, 0x41, 0 } };
    static const size_t extralen[] = { 3, 3, 2, 3 };
    for (int i = 0; i < 4; i++) { Binson x; for (int ov = 0; ov < 3; ov++) (void) call_overload(ov, extra[i], extralen[i], x); }
    printf("valgrind-subset: %llu inputs x 3 overloads executed\n", (unsigned long long) e.index + 4);
    return 0;
}

static void replay_main(void)
{
    char *t = vf_replay_load(vf_g.replay);
    char *hex = vf_replay_get(t, "input_hex"), *phase = vf_replay_get(t, "phase");
    if (!hex || !phase) vf_die("replay file lacks phase/input_hex");
    static uint8_t bytes[300000];
    static vf_doc R;
    long n = vf_unhex(bytes, sizeof bytes, hex);
    if (n < 0) vf_die("bad input_hex");
    vf_g.wid = 0;
    vf_fatal_describe = describe;
    vf_install_fatal();
    IN = bytes; INLEN = (size_t) n; LABEL = "replay";
    bool ok;
    if (!strcmp(phase, "bytes")) ok = check_bytes_once(bytes, (size_t) n, false);
    else {
        if (vf_ref_decode(bytes, (size_t) n, VK_OBJ, 255, &R) != VR_OK) vf_die("replay tree document invalid");
        R.bytes = bytes; R.len = (size_t) n; R.root_kind = VK_OBJ;
        ok = check_tree_once(&R, false);
    }
    if (!ok) { printf("replay: %s\nVIOLATION property=%s replay=%s\n", why, vf_g.prop, vf_g.replay); exit(VF_EXIT_VIOLATION); }
    printf("replay: passes\n");
    exit(VF_EXIT_OK);
}

int main(int argc, char **argv)
{
    if (argc > 1 && !strcmp(argv[1], "--valgrind-subset")) {
        static vf_wshared one[1];
        memset(&vf_g, 0, sizeof vf_g);
        vf_g.sh = one; vf_g.ctr_names = ctr_names;
        return valgrind_subset();
    }
    vf_main_init(argc, argv, "cxx", ctr_names);
    if (strcmp(vf_g.prop, "C15")) vf_die("cxx decides C15");
    L_TOK = vf_g.thorough ? 3 : 2; N_BYTES = vf_g.thorough ? 3 : 2; N_TREE = vf_g.thorough ? 4 : 3;
    const char *e;
    if ((e = getenv("VERIF_L"))) L_TOK = atoi(e);
    if ((e = getenv("VERIF_N"))) N_TREE = atoi(e);
    if (vf_g.replay) replay_main();
    int deaths = vf_run_workers(worker);
    static char bound[1800], extra[300];
    snprintf(bound, sizeof bound,
             "bytes: every object-framed sequence of <= %d tokens and every unframed sequence of <= 2 tokens (incl. the empty vector) over the %d-token hostile alphabet, every valid "
             "object with <= %d value tokens and ALL its one-deviation mutants, 3 documents over 1000 bytes, each through the 3 deserialize overloads; trees: every object with <= %d "
             "value tokens over 9 leaf classes (incl. empty string and empty bytes) and keys {\"\", \"\\0k\", \"a\", \"aab\", \"ab\", 0x80}, built through put() in EVERY insertion order of every object's keys; wrapper built with "
             "-ftrivial-auto-var-init=%s",
             L_TOK, VF_NTOK_HOSTILE, N_BYTES, N_TREE, getenv("VERIF_VARIANT") ? getenv("VERIF_VARIANT") : "zero");
    const char *prev = getenv("VERIF_CXX_PREV");
    snprintf(extra, sizeof extra, "\"auto_var_init_variant\": \"%s\", \"other_variant_result\": \"%s\"", getenv("VERIF_VARIANT") ? getenv("VERIF_VARIANT") : "zero", prev ? prev : "not run");
    static const char *const assumptions[] = {
        "an 'uninitialised parser' is made deterministic: the wrapper's automatic variables start from all-zero in one build and from the 0xFE pattern in the other (gcc -ftrivial-auto-var-init); the init-rejected inputs are additionally run under valgrind, whose uninitialised-value report is the direct oracle",
        "the wrapper's depth limit is BINSON_PARSER_DEFAULT_DEPTH = 10; deeper valid documents must throw",
        "keys compare as std::string (unsigned bytewise), the order of the specification"
    };
    static const int must[] = { CT_INPUTS, CT_RETURNED, CT_THREW, CT_EMPTY_INPUT, CT_INIT_REJECTED_INPUTS, CT_RESERIALIZED, CT_TREES, CT_ORDERS, CT_ROUNDTRIPS, CT_BIG_DOCS, CT_MUT };
    vf_evidence_spec es;
    memset(&es, 0, sizeof es);
    es.c_states = CT_STATES; es.c_transitions = CT_CALLS; es.c_validated = CT_CALLS;
    snprintf(bound + strlen(bound), sizeof bound - strlen(bound), "%s",
             "; later additions: every key put twice on odd insertion orders (a decoy of another type first, through each put overload); deserialize into an object holding stale values "
             "under the document's own keys; the parser-pointer overload handed parsers with 5 histories; every pair and triple of small sibling subtrees; keys \"aab\" < \"ab\"");
    es.bound = bound; es.extra_json = extra;
    es.rule = "exhaustive enumeration of byte inputs x overloads and of trees x insertion orders; states = (input, overload) and (tree, order) pairs; transitions = real deserialize calls";
    es.assumptions = assumptions; es.nassumptions = 3;
    es.must_be_nonzero = must; es.n_must = 11;
    return vf_finish(&es, deaths);
}
