/* decode.c - C03 (a full traversal decodes exactly what the bytes encode, in
 * place) and C10 (decode then encode reproduces every valid document).
 * Exhaustive enumeration of bounded document spaces and value alphabets; for
 * each document the canonical full traversal is executed on the real parser in
 * lock step with the reference tree (C03), or transcribed into the real writer
 * and compared with the input bytes (C10). */
#define VF_MAXNODES 70200       /* wide containers: more than 65536 elements in one array / object */
#include "../lib/vf_util.h"
#include "../lib/vf_ref.h"
#include "../lib/vf_gen.h"
#include "../lib/vf_run.h"
#include "../lib/vf_snap.h"
#include <dirent.h>
#include <sys/mman.h>
#include <unistd.h>

enum {
    CT_DOCS, CT_NODES, CT_CALLS, CT_GETTERS, CT_EQUALS_TRUE, CT_EQUALS_FALSE, CT_INTS, CT_DOUBLES, CT_LENGTHS, CT_CORPUS, CT_GENDOCS, CT_WRONGTYPE_GETTERS,
    CT_W8, CT_W16, CT_W32, CT_W64, CT_NEG, CT_TRANSCRIBED_BYTES, CT_CORPUS_SKIPPED, CT_NAN
};
static const char *const ctr_names[VF_NCTR] = {
    "documents", "nodes_visited", "api_calls", "getter_comparisons", "string_equals_true", "string_equals_false", "integer_carrier_values",
    "double_carrier_patterns", "length_carrier_documents", "corpus_files", "generated_documents", "wrong_type_getter_checks", "integers_width_1",
    "integers_width_2", "integers_width_4", "integers_width_8", "negative_integers", "bytes_transcribed", "corpus_files_skipped_too_many_nodes", "nan_patterns"
};

static int P_C03, P_C10, P_C05;
static bool LIGHT;     /* C05, 2^32 sweep only: compare the writer output with the reference encoding; the parse-back of these very bytes is C03's sweep */
static vf_doc *D;
static vf_live L;
static const char *LABEL;
static int MDEPTH;

static void describe(vf_str *o)
{
    if (!D) return;
    vf_str_printf(o, "root: %s\nmax_depth: %d\ndoc_len: %zu\ndoc_hex: ", D->root_kind == VK_OBJ ? "object" : "array", MDEPTH, D->len);
    if (D->len <= 3000) vf_str_hex(o, D->bytes, D->len); else { vf_str_hex(o, D->bytes, 64); vf_str_printf(o, "...(%zu bytes)", D->len); }
    vf_str_printf(o, "\nlabel: %s\n", LABEL ? LABEL : "");
}
static char why[300], sigk[80];
static bool fail(const char *sig, const char *fmt, ...) __attribute__((format(printf, 2, 3)));
static bool fail(const char *sig, const char *fmt, ...)
{
    va_list ap;
    va_start(ap, fmt);
    vsnprintf(why, sizeof why, fmt, ap);
    va_end(ap);
    snprintf(sigk, sizeof sigk, "%s", sig);
    return false;
}

static const int tmap[] = { 0, BINSON_TYPE_OBJECT, BINSON_TYPE_ARRAY, BINSON_TYPE_BOOLEAN, BINSON_TYPE_INTEGER, BINSON_TYPE_DOUBLE, BINSON_TYPE_STRING, BINSON_TYPE_BYTES };
static const char *kname[] = { "none", "object", "array", "bool", "int", "double", "string", "bytes" };

/* all getters at one stop */
static bool check_stop(int id)
{
    const vf_node *x = &D->n[id];
    binson_parser *p = L.p;
    const uint8_t *base = vf_live_bufptr(&L);
    vf_count(CT_NODES, 1);
    vf_count(CT_GETTERS, 9);
    binson_type t = binson_parser_get_type(p);
    if ((int) t != tmap[x->kind]) return fail("type", "node %d: get_type=%s, encoded %s", id, vf_type_name(t), kname[x->kind]);
    if (x->name_off >= 0) {
        bbuf *nm = binson_parser_get_name(p);
        if (!nm || nm->bptr != base + x->name_off || nm->bsize != (size_t) x->name_len)
            return fail("name-span", "node %d: get_name=(offset %ld, len %zu), the input holds the name at (offset %d, len %d)", id, nm && nm->bptr ? (long) (nm->bptr - base) : -1L,
                        nm ? nm->bsize : 0, x->name_off, x->name_len);
    }
    int64_t iv = binson_parser_get_integer(p);
    bool bv = binson_parser_get_boolean(p);
    double dv = binson_parser_get_double(p);
    uint64_t dbits;
    memcpy(&dbits, &dv, 8);
    bbuf *sv = binson_parser_get_string_bbuf(p), *yv = binson_parser_get_bytes_bbuf(p);
    /* own type exact, every other type neutral */
    if (x->kind == VK_INT) { if (iv != x->ival) return fail("int-value", "node %d: get_integer=%lld, encoded %lld", id, (long long) iv, (long long) x->ival); }
    else if (iv != 0) return fail("neutral-int", "node %d (%s): get_integer=%lld, must be 0", id, kname[x->kind], (long long) iv);
    if (x->kind == VK_BOOL) { if (bv != x->bval) return fail("bool-value", "node %d: get_boolean=%d, encoded %d", id, bv, x->bval); }
    else if (bv) return fail("neutral-bool", "node %d (%s): get_boolean=true, must be false", id, kname[x->kind]);
    if (x->kind == VK_DBL) { if (dbits != x->dbits) return fail("double-bits", "node %d: get_double bits %016llx, encoded %016llx", id, (unsigned long long) dbits, (unsigned long long) x->dbits); }
    else if (dbits != 0) return fail("neutral-double", "node %d (%s): get_double bits %016llx, must be +0.0", id, kname[x->kind], (unsigned long long) dbits);
    if (x->kind == VK_STR) {
        if (!sv || sv->bptr != base + x->pay_off || sv->bsize != (size_t) x->pay_len)
            return fail("string-span", "node %d: string span (offset %ld, len %zu), input holds it at (offset %d, len %d)", id, sv && sv->bptr ? (long) (sv->bptr - base) : -1L, sv ? sv->bsize : 0,
                        x->pay_off, x->pay_len);
    } else if (sv) return fail("neutral-string", "node %d (%s): get_string_bbuf non-NULL", id, kname[x->kind]);
    if (x->kind == VK_BYT) {
        if (!yv || yv->bptr != base + x->pay_off || yv->bsize != (size_t) x->pay_len)
            return fail("bytes-span", "node %d: bytes span (offset %ld, len %zu), input holds it at (offset %d, len %d)", id, yv && yv->bptr ? (long) (yv->bptr - base) : -1L, yv ? yv->bsize : 0,
                        x->pay_off, x->pay_len);
    } else if (yv) return fail("neutral-bytes", "node %d (%s): get_bytes_bbuf non-NULL", id, kname[x->kind]);
    vf_count(CT_WRONGTYPE_GETTERS, 4);
    /* string_equals */
    static char q[200200];
    if (x->kind == VK_STR) {
        size_t l = (size_t) x->pay_len;
        const uint8_t *s = D->bytes + x->pay_off;
        bool has_nul = memchr(s, 0, l) != NULL;
        memcpy(q, s, l); q[l] = 0;
        bool e = binson_parser_string_equals(p, q);
        if (e != !has_nul) return fail("equals-exact", "node %d: string_equals(exact bytes) = %d (value %s a NUL)", id, e, has_nul ? "contains" : "has no");
        vf_count(e ? CT_EQUALS_TRUE : CT_EQUALS_FALSE, 1);
        if (l > 0) {
            memcpy(q, s, l - 1); q[l - 1] = 0;
            if (binson_parser_string_equals(p, q)) return fail("equals-prefix", "node %d: string_equals(proper prefix) is true", id);
            memcpy(q, s, l); q[l - 1] = (char) (s[l - 1] == 'z' ? 'y' : 'z'); q[l] = 0;
            if (binson_parser_string_equals(p, q)) return fail("equals-lastbyte", "node %d: string_equals(same length, different last byte) is true", id);
            vf_count(CT_EQUALS_FALSE, 2);
        }
        memcpy(q, s, l); q[l] = 'x'; q[l + 1] = 0;
        if (!has_nul && binson_parser_string_equals(p, q)) return fail("equals-extension", "node %d: string_equals(value + one byte) is true", id);
        vf_count(CT_EQUALS_FALSE, 1);
        /* length differences on both sides of every power of two (a difference narrowed to 8 or 16 bits compares as 0 or with the
           wrong sign): proper prefixes shorter by d, extensions longer by d, d = 2^k - 1, 2^k, 2^k + 1, k = 1..17; on the long-payload family only (>= 100 bytes), which holds 128-, 32768- and 65537-byte strings */
        if (!has_nul && l >= 100) for (int k = 1; k <= 17; k++) for (int dd = -1; dd <= 1; dd++) {
            size_t d = ((size_t) 1 << k) + (size_t) dd;
            if (d < 2 || (k > 1 && dd == -1 && d == ((size_t) 1 << (k - 1)) + 1)) continue;
            if (l >= d) {
                memcpy(q, s, l - d); q[l - d] = 0;
                if (binson_parser_string_equals(p, q)) return fail("equals-prefix-d", "node %d: string_equals(prefix shorter by %zu bytes) is true", id, d);
                vf_count(CT_EQUALS_FALSE, 1);
            }
            if (l + d + 1 < sizeof q) {
                memcpy(q, s, l); memset(q + l, 'x', d); q[l + d] = 0;
                if (binson_parser_string_equals(p, q)) return fail("equals-extension-d", "node %d: string_equals(value + %zu bytes) is true", id, d);
                vf_count(CT_EQUALS_FALSE, 1);
            }
        }
    } else {
        if (binson_parser_string_equals(p, "") || binson_parser_string_equals(p, "s0")) return fail("equals-nonstring", "node %d (%s): string_equals is true on a non-string", id, kname[x->kind]);
        vf_count(CT_EQUALS_FALSE, 2);
    }
    if (p->error_flags != BINSON_ERROR_NONE) return fail("getter-error", "node %d: getters raised error %d", id, (int) p->error_flags);
    return true;
}

static bool visit(int id)
{
    const vf_node *c = &D->n[id];
    binson_parser *p = L.p;
    for (int ch = c->first; ch >= 0; ch = D->n[ch].next) {
        vf_count(CT_CALLS, 1); vf_progress++;
        if (!binson_parser_next(p)) return fail("next-false", "next returned false before child %d of node %d (error %d)", D->n[ch].idx, id, (int) p->error_flags);
        if (!check_stop(ch)) return false;
        if (D->n[ch].kind == VK_OBJ || D->n[ch].kind == VK_ARR) {
            vf_count(CT_CALLS, 2);
            bool r = D->n[ch].kind == VK_OBJ ? binson_parser_go_into_object(p) : binson_parser_go_into_array(p);
            if (!r) return fail("enter-false", "go_into_%s returned false on node %d", kname[D->n[ch].kind], ch);
            if (!visit(ch)) return false;
            r = D->n[ch].kind == VK_OBJ ? binson_parser_leave_object(p) : binson_parser_leave_array(p);
            if (!r) return fail("leave-false", "leave_%s returned false on node %d", kname[D->n[ch].kind], ch);
        }
    }
    vf_count(CT_CALLS, 1);
    if (binson_parser_next(p)) return fail("next-extra", "next returned true after the last child of node %d: an element that is not encoded", id);
    if (p->error_flags != BINSON_ERROR_NONE) return fail("end-error", "error %d at the end of node %d", (int) p->error_flags, id);
    return true;
}

/* prior use of the same parser object: walk down the first-child chain as deep as it goes, then reset. The traversal
 * that follows must be the traversal of a fresh parser (a reset that forgets something only shows after this) */
static bool PREPASS;
static void dive_and_reset(void)
{
    binson_parser *p = L.p;
    int id = 0;
    bool r = D->root_kind == VK_OBJ ? binson_parser_go_into_object(p) : binson_parser_go_into_array(p);
    while (r) {
        int ch = D->n[id].first;
        /* the first container child, or the first child */
        int pick = -1;
        for (int c = ch; c >= 0; c = D->n[c].next) { if (!binson_parser_next(p)) { c = -1; break; } if (D->n[c].kind == VK_OBJ || D->n[c].kind == VK_ARR) { pick = c; break; } }
        if (pick < 0) break;
        r = D->n[pick].kind == VK_OBJ ? binson_parser_go_into_object(p) : binson_parser_go_into_array(p);
        id = pick;
    }
    vf_count(CT_CALLS, 2);
    binson_parser_reset(p);
}
static bool traverse_c03(void)
{
    binson_parser *p = L.p;
    bool ok = D->root_kind == VK_OBJ ? binson_parser_init_object(p, vf_live_bufptr(&L), L.len) : binson_parser_init_array(p, vf_live_bufptr(&L), L.len);
    if (!ok) return fail("init", "init rejects a valid document (error %d)", (int) p->error_flags);
    if (PREPASS) dive_and_reset();
    ok = D->root_kind == VK_OBJ ? binson_parser_go_into_object(p) : binson_parser_go_into_array(p);
    vf_count(CT_CALLS, 3);
    if (!ok) return fail("enter-root", "cannot enter the root");
    if (!visit(0)) return false;
    ok = D->root_kind == VK_OBJ ? binson_parser_leave_object(p) : binson_parser_leave_array(p);
    if (!ok || p->error_flags != BINSON_ERROR_NONE) return fail("leave-root", "leaving the root: ret=%d error=%d", ok, (int) p->error_flags);
    return true;
}

/* ---- C10: transcribe what the PARSER reports into the writer */
/* LOOKUPS: inside objects the traversal is driven by field lookups instead of next(): before every field a lookup of an
 * ABSENT name that sorts just before it (the field's name without its last byte, or with its last byte decremented),
 * then the lookup of the field itself. node = the tree node of the container being transcribed (LOOKUPS only). */
static bool LOOKUPS;
/* P2W_LEVEL >= 0: containers met at that nesting level of the transcription (0 = the members of the root) are not entered but handed to
 * the writer as a whole with binson_parser_to_writer - "the corresponding writer call" for a container */
static int P2W_LEVEL = -1;
static int lk_node[400];
static bool advance_field(binson_parser *p, int container, int *child)
{
    if (*child < 0) { /* after the last field a lookup must miss and next must be false */
        return false;
    }
    const vf_node *x = &D->n[*child];
    static uint8_t probe[200200];
    size_t l = (size_t) x->name_len;
    (void) container;
    if (l > 0 && l < sizeof probe) {
        memcpy(probe, D->bytes + x->name_off, l);
        size_t pl = l;
        if (probe[l - 1] > 0) probe[l - 1]--; else pl = l - 1;
        /* only if that name is really absent before this field: it must sort after the previous sibling */
        int prev = -1;
        for (int c = D->n[x->parent].first; c >= 0 && c != *child; c = D->n[c].next) prev = c;
        if (prev < 0 || vf_name_cmp(D->bytes + D->n[prev].name_off, (size_t) D->n[prev].name_len, probe, pl) < 0) {
            vf_count(CT_CALLS, 1);
            if (binson_parser_field_with_length(p, (const char *) probe, pl)) return false;    /* reported as a failed traversal below */
        }
    }
    vf_count(CT_CALLS, 1);
    return binson_parser_field_with_length(p, (const char *) (D->bytes + x->name_off), l);
}
static bool transcribe_level(binson_parser *p, binson_writer *w, bool inobj, int depth)
{
    if (depth > 300) return fail("too-deep", "transcriber recursion");
    int container = LOOKUPS ? lk_node[depth] : -1;
    int child = (LOOKUPS && container >= 0) ? D->n[container].first : -1;
    for (;;) {
        bool more;
        vf_stack_paint();       /* what the calls of this step find on the stack depends on this document only */
        if (LOOKUPS && inobj && container >= 0) {
            if (child < 0) { if (binson_parser_next(p)) return fail("lookup-extra", "a field is left after all names of the object were looked up"); break; }
            more = advance_field(p, container, &child);
            if (!more) return fail("lookup-miss", "lookup-driven traversal: field %d of node %d not found (error %d)", D->n[child].idx, container, (int) p->error_flags);
        } else {
            more = binson_parser_next(p);
            if (!more) break;
        }
        int this_child = child;
        if (LOOKUPS && container >= 0) { if (!inobj) { if (child < 0) return fail("tree", "more elements than the tree has"); this_child = child; } child = D->n[child].next; }
        vf_count(CT_CALLS, 2);
        if (inobj) {
            bbuf *nm = binson_parser_get_name(p);
            if (!nm) return fail("name-null", "get_name returned NULL inside an object");
            binson_write_name_with_len(w, (const char *) nm->bptr, nm->bsize);
        }
        switch (binson_parser_get_type(p)) {
        case BINSON_TYPE_BOOLEAN: binson_write_boolean(w, binson_parser_get_boolean(p)); break;
        case BINSON_TYPE_INTEGER: binson_write_integer(w, binson_parser_get_integer(p)); break;
        case BINSON_TYPE_DOUBLE: binson_write_double(w, binson_parser_get_double(p)); break;
        case BINSON_TYPE_STRING: { bbuf *s = binson_parser_get_string_bbuf(p); if (!s) return fail("string-null", "get_string_bbuf NULL"); binson_write_string_with_len(w, (const char *) s->bptr, s->bsize); break; }
        case BINSON_TYPE_BYTES: { bbuf *s = binson_parser_get_bytes_bbuf(p); if (!s) return fail("bytes-null", "get_bytes_bbuf NULL"); binson_write_bytes(w, s->bptr, s->bsize); break; }
        case BINSON_TYPE_OBJECT: case BINSON_TYPE_ARRAY:
            if (depth != P2W_LEVEL) goto enter;
            if (!binson_parser_to_writer(p, w)) return fail("to_writer-false", "parser_to_writer failed on a container (parser error %d, writer error %d)", (int) p->error_flags, (int) w->error_flags);
            break;
        default: return fail("type-none", "get_type returned %d after a successful next", (int) binson_parser_get_type(p));
        }
        continue;
    enter:
        switch (binson_parser_get_type(p)) {
        case BINSON_TYPE_OBJECT:
            if (!binson_parser_go_into_object(p)) return fail("enter-false", "go_into_object failed");
            binson_write_object_begin(w);
            lk_node[depth + 1] = this_child;
            if (!transcribe_level(p, w, true, depth + 1)) return false;
            if (!binson_parser_leave_object(p)) return fail("leave-false", "leave_object failed");
            binson_write_object_end(w);
            break;
        case BINSON_TYPE_ARRAY:
            if (!binson_parser_go_into_array(p)) return fail("enter-false", "go_into_array failed");
            binson_write_array_begin(w);
            lk_node[depth + 1] = this_child;
            if (!transcribe_level(p, w, false, depth + 1)) return false;
            if (!binson_parser_leave_array(p)) return fail("leave-false", "leave_array failed");
            binson_write_array_end(w);
            break;
        default: break;
        }
    }
    return true;
}
static bool traverse_c10(void)
{
    binson_parser *p = L.p;
    bool isobj = D->root_kind == VK_OBJ;
    bool ok = isobj ? binson_parser_init_object(p, vf_live_bufptr(&L), L.len) : binson_parser_init_array(p, vf_live_bufptr(&L), L.len);
    if (!ok) return fail("init", "init rejects a valid document");
    if (PREPASS) dive_and_reset();
    uint8_t *out = (uint8_t *) vf_xmalloc(D->len);      /* exactly the input size: one byte more would overflow under ASan */
    memset(out, 0xA5, D->len);
    binson_writer w;
    memset(&w, 0x77, sizeof w);      /* a writer object holding arbitrary (but fixed) bytes before init */
    binson_writer_init(&w, out, D->len);
    ok = isobj ? binson_parser_go_into_object(p) : binson_parser_go_into_array(p);
    if (isobj) binson_write_object_begin(&w); else binson_write_array_begin(&w);
    bool r = ok && transcribe_level(p, &w, isobj, 0);
    if (r) {
        ok = isobj ? binson_parser_leave_object(p) : binson_parser_leave_array(p);
        if (isobj) binson_write_object_end(&w); else binson_write_array_end(&w);
        vf_count(CT_TRANSCRIBED_BYTES, D->len);
        if (!ok || p->error_flags != BINSON_ERROR_NONE) r = fail("parser-error", "traversal ended with ret=%d error=%d", ok, (int) p->error_flags);
        else if (w.error_flags != BINSON_ERROR_NONE) r = fail("writer-error", "writer error %d (counter %zu, input %zu bytes)", (int) w.error_flags, binson_writer_get_counter(&w), D->len);
        else if (binson_writer_get_counter(&w) != D->len) r = fail("size", "re-encoded size %zu, input %zu bytes", binson_writer_get_counter(&w), D->len);
        else if (memcmp(out, D->bytes, D->len)) {
            size_t i = 0;
            while (out[i] == D->bytes[i]) i++;
            r = fail("bytes", "re-encoding differs from the input at offset %zu (%02x vs %02x)", i, out[i], D->bytes[i]);
        }
    }
    free(out);
    return r;
}


/* ---- C05: write the tree through the real writer calls; the output must be the canonical
 * (reference) encoding, be accepted by verify, and decode back to the values written */
/* in-place mode: string / bytes payloads are first staged INSIDE the writer's destination, one byte beyond where they will end up,
 * and written from there (a caller that builds its message in place): source and destination of the copy overlap */
static bool ALIAS_MODE;
static const uint8_t *staged(binson_writer *w, const uint8_t *pay, size_t len)
{
    size_t hdr = 1 + (len <= 127 ? 1 : len <= 32767 ? 2 : 4);
    uint8_t *st = L.buf + binson_writer_get_counter(w) + hdr + 1;
    if (!ALIAS_MODE || len == 0 || w->error_flags != BINSON_ERROR_NONE || (size_t) (st - L.buf) + len > D->len) return pay;
    memmove(st, pay, len);
    return st;
}
static bool write_tree(binson_writer *w, int id)
{
    const vf_node *c = &D->n[id];
    for (int ch = c->first; ch >= 0; ch = D->n[ch].next) {
        const vf_node *x = &D->n[ch];
        vf_count(CT_CALLS, 1); vf_progress++;
        vf_stack_paint();
        if (x->name_off >= 0) {
            const uint8_t *nm = D->bytes + x->name_off;
            if (!memchr(nm, 0, (size_t) x->name_len) && (ch & 1)) {
                char *z = (char *) vf_xmalloc((size_t) x->name_len + 1);
                memcpy(z, nm, (size_t) x->name_len); z[x->name_len] = 0;
                binson_write_name(w, z);
                free(z);
            } else binson_write_name_with_len(w, (const char *) nm, (size_t) x->name_len);
        }
        switch (x->kind) {
        case VK_BOOL: binson_write_boolean(w, x->bval); break;
        case VK_INT: binson_write_integer(w, x->ival); break;
        case VK_DBL: { double v; memcpy(&v, &x->dbits, 8); binson_write_double(w, v); break; }
        case VK_STR: {
            const uint8_t *s = D->bytes + x->pay_off;
            if (!memchr(s, 0, (size_t) x->pay_len) && (ch & 1)) {
                char *z = (char *) vf_xmalloc((size_t) x->pay_len + 1);
                memcpy(z, s, (size_t) x->pay_len); z[x->pay_len] = 0;
                binson_write_string(w, z);
                free(z);
            } else if (x->pay_len == 0 && !(ch & 1)) binson_write_string_with_len(w, NULL, 0);
            else binson_write_string_with_len(w, (const char *) staged(w, s, (size_t) x->pay_len), (size_t) x->pay_len);
            break;
        }
        case VK_BYT:
            /* an empty value may come with a NULL pointer (std::vector<uint8_t>().data()) */
            if (x->pay_len == 0 && (ch & 1)) binson_write_bytes(w, NULL, 0);
            else binson_write_bytes(w, staged(w, D->bytes + x->pay_off, (size_t) x->pay_len), (size_t) x->pay_len);
            break;
        case VK_OBJ: binson_write_object_begin(w); if (!write_tree(w, ch)) return false; binson_write_object_end(w); break;
        case VK_ARR: binson_write_array_begin(w); if (!write_tree(w, ch)) return false; binson_write_array_end(w); break;
        default: return fail("tree", "bad node kind");
        }
    }
    return true;
}
static int needed_depth(const vf_doc *d);
static size_t CLAIM;
static bool traverse_c05_mode(void);
static bool traverse_c05(void)
{
    ALIAS_MODE = false;
    if (!traverse_c05_mode()) return false;
    if (LIGHT) return true;
    ALIAS_MODE = true;
    bool ok = traverse_c05_mode();
    ALIAS_MODE = false;
    if (!ok) { char t[300]; snprintf(t, sizeof t, "with payloads staged inside the destination: %s", why); snprintf(why, sizeof why, "%s", t); return false; }
    /* a writer told that its capacity is SIZE_MAX ("unbounded") over a destination of exactly the encoded size */
    CLAIM = SIZE_MAX;
    ok = traverse_c05_mode();
    CLAIM = 0;
    if (!ok) { char t[300]; snprintf(t, sizeof t, "with a claimed capacity of SIZE_MAX: %s", why); snprintf(why, sizeof why, "%s", t); }
    return ok;
}
static bool traverse_c05_mode(void)
{
    bool isobj = D->root_kind == VK_OBJ;
    uint8_t *out = L.buf;           /* the live buffer (exact size, ASan-guarded) is the writer's destination */
    memset(out, 0xA5, D->len);
    binson_writer w;
    memset(&w, 0x77, sizeof w);      /* a writer object holding arbitrary (but fixed) bytes before init */
    binson_writer_init(&w, out, CLAIM ? CLAIM : D->len);
    if (isobj) binson_write_object_begin(&w); else binson_write_array_begin(&w);
    if (!write_tree(&w, 0)) return false;
    if (isobj) binson_write_object_end(&w); else binson_write_array_end(&w);
    vf_count(CT_TRANSCRIBED_BYTES, D->len);
    if (w.error_flags != BINSON_ERROR_NONE) return fail("writer-error", "writer error %d (counter %zu, canonical size %zu)", (int) w.error_flags, binson_writer_get_counter(&w), D->len);
    if (binson_writer_get_counter(&w) != D->len) return fail("size", "writer produced %zu bytes, the canonical encoding has %zu", binson_writer_get_counter(&w), D->len);
    if (memcmp(out, D->bytes, D->len)) {
        size_t i = 0;
        while (out[i] == D->bytes[i]) i++;
        return fail("bytes", "writer output differs from the canonical encoding at offset %zu (%02x vs %02x)", i, out[i], D->bytes[i]);
    }
    if (LIGHT) return true;
    int need = needed_depth(D);
    if (isobj && need <= 10 && !binson_writer_verify(&w)) return fail("writer-verify", "binson_writer_verify rejects the writer's own output (nesting %d)", need);
    /* the parser must accept it and decode the values written */
    if (!traverse_c03()) { char t[300]; snprintf(t, sizeof t, "decoding the writer's output: %s", why); snprintf(why, sizeof why, "%s", t); return false; }
    binson_parser *p = L.p;
    bool ok = isobj ? binson_parser_init_object(p, out, D->len) : binson_parser_init_array(p, out, D->len);
    if (!ok || !binson_parser_verify(p)) return fail("parser-verify", "binson_parser_verify rejects the writer's output (error %d)", (int) p->error_flags);
    return true;
}

static int needed_depth(const vf_doc *d)
{
    int best = 1;
    for (int i = 0; i < d->nn; i++) {
        if (d->n[i].kind != VK_OBJ) continue;
        int od = d->root_kind == VK_ARR ? 1 : 0;
        for (int x = i; x >= 0; x = d->n[x].parent) if (d->n[x].kind == VK_OBJ) od++;
        if (od > best) best = od;
    }
    return best;
}

static void run_doc(vf_doc *d, const char *label, int md)
{
    D = d; LABEL = label; MDEPTH = md;
    vf_count(CT_DOCS, 1);
    vf_live_alloc(&L, d->bytes, d->len, md, 0);
    vf_stack_paint();
    bool ok = P_C03 ? traverse_c03() : P_C05 ? traverse_c05() : traverse_c10();
    if (!ok) {
        /* determinism guard */
        char w1[300];
        snprintf(w1, sizeof w1, "%s", why);
        vf_live_free(&L);
        vf_live_alloc(&L, d->bytes, d->len, md, 0);
        vf_stack_paint();
        bool ok2 = P_C03 ? traverse_c03() : P_C05 ? traverse_c05() : traverse_c10();
        if (ok2) {
            /* passes on the replay: with every object and buffer filled with fixed bytes beforehand, a failure that comes and goes means the
             * library's output depends on uninitialised memory; it is reported if it shows again within 6 more runs */
            int again = 0;
            for (int t = 0; t < 6 && !again; t++) {
                vf_live_free(&L);
                vf_live_alloc(&L, d->bytes, d->len, md, 0);
                bool okt = P_C03 ? traverse_c03() : P_C05 ? traverse_c05() : traverse_c10();
                if (!okt) again = 1;
            }
            if (!again) vf_die("decode violation did not reproduce (%s)", w1);
        }
        if (ok2 || strcmp(w1, why)) {
            /* fails on every run, but not with the same bytes: the library's output depends on something other than its inputs
             * (every object and buffer here is filled with fixed bytes before use); reported under one stable description */
            char t[300];
            snprintf(t, sizeof t, "with identical inputs the traversal fails differently from run to run (first: %.200s)", w1);
            snprintf(why, sizeof why, "%s", t);
            snprintf(sigk, sizeof sigk, "unstable-failure");
        }
        char sig[160];
        snprintf(sig, sizeof sig, "decode:%s:%s", P_C03 ? "traverse" : P_C05 ? "write" : "transcribe", sigk);
        vf_str b = { 0 };
        describe(&b);
        vf_str_printf(&b, "mismatch: %s\n", why);
        vf_violation(sig, b.s);
        vf_str_free(&b);
    }
    vf_live_free(&L);
}

static int g_w, g_W; static uint64_t g_start, g_index;
static bool take(void)
{
    uint64_t i = g_index++;
    if (i < g_start || (int) (i % (uint64_t) g_W) != g_w) return false;
    vf_set_index(i);
    return true;
}

/* carriers: {"a":v}, [v], {"<128-byte name>":v} */
static vf_doc CD;
static char longname[128];
static void carrier_begin(int form)
{
    vf_b_reset(&CD);
    if (form == 1) vf_b_open(&CD, VK_ARR);
    else { vf_b_open(&CD, VK_OBJ); if (form == 0) vf_b_name(&CD, "a", 1); else vf_b_name(&CD, longname, 128); }
}
static void carrier_end(const char *label)
{
    vf_b_close(&CD);
    run_doc(&CD, label, 1 + (CD.root_kind == VK_ARR));
}
static void carrier_int(int64_t v)
{
    char label[80];
    snprintf(label, sizeof label, "integer carrier %lld", (long long) v);
    vf_count(CT_INTS, 1);
    if (v < 0) vf_count(CT_NEG, 1);
    vf_count(v >= -128 && v <= 127 ? CT_W8 : v >= -32768 && v <= 32767 ? CT_W16 : v >= INT32_MIN && v <= INT32_MAX ? CT_W32 : CT_W64, 1);
    for (int form = 0; form < 3; form++) { carrier_begin(form); vf_b_int(&CD, v); carrier_end(label); }
}
static void carrier_dbl(uint64_t bits)
{
    char label[80];
    snprintf(label, sizeof label, "double carrier bits %016llx", (unsigned long long) bits);
    vf_count(CT_DOUBLES, 1);
    if ((bits & 0x7ff0000000000000ULL) == 0x7ff0000000000000ULL && (bits & 0xfffffffffffffULL)) vf_count(CT_NAN, 1);
    for (int form = 0; form < 2; form++) { carrier_begin(form); vf_b_dbits(&CD, bits); carrier_end(label); }
}
#define PAYMAX 200100
static uint8_t *payload, *payload_bin;
static void carrier_len(size_t len)
{
    char label[80];
    vf_count(CT_LENGTHS, 1);
    for (int kind = VK_STR; kind <= VK_BYT; kind++) {
        snprintf(label, sizeof label, "%s of length %zu", kind == VK_STR ? "string" : "bytes", len);
        carrier_begin(len & 1); vf_b_blob(&CD, kind, kind == VK_STR ? payload : payload_bin, len); carrier_end(label);
    }
    /* a NAME of that length */
    if (len <= 40000) {
        vf_b_reset(&CD); vf_b_open(&CD, VK_OBJ); vf_b_name(&CD, payload, len); vf_b_bool(&CD, true); snprintf(label, sizeof label, "name of length %zu", len); carrier_end(label);
        if (P_C10 && len > 0) {        /* a field named by a single 0x00 before it, objects traversed by lookups: the miss in front of the long name must hand back exactly that name */
            vf_b_reset(&CD); vf_b_open(&CD, VK_OBJ); vf_b_name(&CD, "\0", 1); vf_b_int(&CD, 1); vf_b_name(&CD, payload, len); vf_b_bool(&CD, true);
            snprintf(label, sizeof label, "name of length %zu traversed by field lookups", len);
            LOOKUPS = true; carrier_end(label); LOOKUPS = false;
        }
    }
}

static void value_families(void)
{
    /* integers: +-2^k + delta */
    for (int k = 0; k < 64; k++)
        for (int d = -3; d <= 3; d++)
            for (int sgn = 0; sgn < 2; sgn++) {
                if (!take()) continue;
                uint64_t u = (1ULL << k) + (uint64_t) (int64_t) d;
                int64_t v = (int64_t) (sgn ? (uint64_t) 0 - u : u);
                carrier_int(v);
            }
    /* sparse byte patterns, far from every power of two: each of the 8 bytes either 0x00 or one of 4 non-zero fills (all 256 masks) */
    {
        static const uint8_t fills[] = { 0x01, 0x5a, 0x80, 0xff };
        for (int f = 0; f < 4; f++)
            for (int mask = 1; mask < 256; mask++) {
                if (!take()) continue;
                uint64_t u = 0;
                for (int b = 0; b < 8; b++) if (mask & (1 << b)) u |= (uint64_t) fills[f] << (8 * b);
                carrier_int((int64_t) u);
                carrier_dbl(u);
            }
    }
    /* decimal boundaries: +-(10^k + d), k = 0..18, |d| <= 1 (digit-count rules live here, far from the binary boundaries) */
    {
        int64_t p10 = 1;
        for (int k = 0; k <= 18; p10 = k < 18 ? p10 * 10 : p10, k++) {
            if (!take()) continue;
            for (int d = -1; d <= 1; d++) { carrier_int(p10 + d); carrier_int(-(p10 + d)); }
        }
    }
    /* neighbourhoods of every width boundary: all values within R of +-2^k, k = 7..63 */
    int64_t R = vf_g.thorough ? 65536 : 2048;
    for (int k = 7; k < 64; k++)
        for (int sgn = 0; sgn < 2; sgn++) {
            if (!take()) continue;
            for (int64_t d = -R; d <= R; d++) {
                uint64_t u = (1ULL << k) + (uint64_t) d;
                carrier_int((int64_t) (sgn ? (uint64_t) 0 - u : u));
            }
        }
    /* every integer that fits 2 bytes (quick) / 4 bytes (thorough), in chunks */
    if (vf_g.thorough) {
        for (int64_t c = INT32_MIN; c <= INT32_MAX; c += 1 << 20) {
            if (!take()) continue;
            if (vf_deadline_passed()) return;
            LIGHT = P_C05 != 0;
            for (int64_t v = c; v < c + (1 << 20); v++) {
                /* one carrier form per value in the 2^32 sweep (the form rotates), all three forms elsewhere */
                char label[64];
                vf_count(CT_INTS, 1);
                vf_count(v >= -128 && v <= 127 ? CT_W8 : v >= -32768 && v <= 32767 ? CT_W16 : CT_W32, 1);
                if (v < 0) vf_count(CT_NEG, 1);
                carrier_begin((int) (v & 1)); vf_b_int(&CD, v);
                snprintf(label, sizeof label, "integer carrier %lld", (long long) v);
                carrier_end(label);
            }
            LIGHT = false;
        }
    } else {
        for (int64_t c = -65536; c <= 65535; c += 4096) {
            if (!take()) continue;
            for (int64_t v = c; v < c + 4096; v++) carrier_int(v);
        }
    }
    /* doubles: all 2^16 patterns of the top 16 bits x 5 low patterns; every byte position x every byte value on 3 bases */
    static const uint64_t low[] = { 0, 1, 0x0000ffffffffffffULL, 0x0000800000000000ULL, 0x0000123456789abcULL };
    for (uint64_t top = 0; top < 65536; top += 256) {
        if (!take()) continue;
        for (uint64_t t = top; t < top + 256; t++) for (int l = 0; l < 5; l++) carrier_dbl((t << 48) | low[l]);
    }
    static const uint64_t bases[] = { 0, 0x3ff0000000000000ULL, 0xffffffffffffffffULL };
    for (int b = 0; b < 3; b++)
        for (int pos = 0; pos < 8; pos++) {
            if (!take()) continue;
            for (uint64_t v = 0; v < 256; v++) carrier_dbl((bases[b] & ~(0xffULL << (8 * pos))) | (v << (8 * pos)));
        }
    /* lengths */
    size_t maxlen = vf_g.thorough ? 70000 : 600;
    for (size_t c = 0; c <= maxlen; c += 50) {
        if (!take()) continue;
        if (vf_deadline_passed()) return;
        for (size_t l = c; l < c + 50 && l <= maxlen; l++) carrier_len(l);
    }
    if (!vf_g.thorough) {
        static const size_t extra[] = { 32766, 32767, 32768, 32769, 65535, 65536, 65537, 70000 };
        for (size_t i = 0; i < sizeof extra / sizeof extra[0]; i++) if (take()) carrier_len(extra[i]);
    }
    /* lengths far from the boundaries and beyond 16 / 17 bits */
    {
        static const size_t far[] = { 4608, 4863, 49152, 65792, 65794, 98304, 131071, 131072, 131073, 196608, 200000 };
        for (size_t i = 0; i < sizeof far / sizeof far[0]; i++) if (take()) carrier_len(far[i]);
    }
}

/* nesting towers (arrays to the limit of 255, objects to max_depth 255) with elements at every level, and wide
 * containers (255 / 256 / 257 / 65535 / 65536 / 65537 elements): counters and comparisons of 8 and 16 bits wrap here */
static vf_doc TD;
static void shape_families(void)
{
    static const int ks[] = { 2, 16, 126, 127, 128, 129, 200, 254, 255 };
    char label[100];
    for (size_t ki = 0; ki < sizeof ks / sizeof ks[0]; ki++)
        for (int variant = 0; variant < 3; variant++) {
            if (!take()) continue;
            int k = ks[ki];
            vf_b_reset(&TD);
            if (variant == 0) {             /* array root, k arrays deep */
                for (int i = 0; i < k; i++) vf_b_open(&TD, VK_ARR);
                vf_b_int(&TD, 1); vf_b_bool(&TD, true); vf_b_blob(&TD, VK_STR, "xy", 2);
                for (int i = 0; i < k; i++) { vf_b_close(&TD); if (i < k - 1) vf_b_int(&TD, 1000 + i); }
                snprintf(label, sizeof label, "tower: %d nested arrays with elements at every level", k);
            } else if (variant == 1) {      /* the same inside an object field */
                vf_b_open(&TD, VK_OBJ); vf_b_name(&TD, "a", 1);
                for (int i = 0; i < k; i++) vf_b_open(&TD, VK_ARR);
                vf_b_int(&TD, 1); vf_b_blob(&TD, VK_STR, "xy", 2);
                for (int i = 0; i < k; i++) { vf_b_close(&TD); if (i < k - 1) vf_b_int(&TD, -1000 - i); }
                vf_b_name(&TD, "b", 1); vf_b_int(&TD, 3);
                vf_b_close(&TD);
                snprintf(label, sizeof label, "tower: object field holding %d nested arrays", k);
            } else {                        /* k nested objects, a sibling after each */
                vf_b_open(&TD, VK_OBJ);
                for (int i = 1; i < k; i++) { vf_b_name(&TD, "a", 1); vf_b_open(&TD, VK_OBJ); }
                vf_b_name(&TD, "a", 1); vf_b_int(&TD, 7);
                for (int i = 1; i < k; i++) { vf_b_close(&TD); vf_b_name(&TD, "b", 1); vf_b_int(&TD, i); }
                vf_b_close(&TD);
                snprintf(label, sizeof label, "tower: %d nested objects with a sibling after each", k);
            }
            int need = needed_depth(&TD);
            run_doc(&TD, label, need);
            if (need < 255) run_doc(&TD, label, 255);
        }
    static const int ns[] = { 255, 256, 257, 65535, 65536, 65537 };
    for (size_t ni = 0; ni < sizeof ns / sizeof ns[0]; ni++)
        for (int variant = 0; variant < 2; variant++) {
            if (!take()) continue;
            if (vf_deadline_passed()) return;
            int cnt = ns[ni];
            vf_b_reset(&TD);
            if (variant == 0) {
                vf_b_open(&TD, VK_ARR);
                for (int i = 0; i < cnt; i++) { if (i % 1000 == 999) vf_b_blob(&TD, VK_STR, "s", 1); else vf_b_int(&TD, i - 300); }
                vf_b_close(&TD);
                snprintf(label, sizeof label, "wide: array of %d elements", cnt);
            } else {
                vf_b_open(&TD, VK_OBJ);
                for (int i = 0; i < cnt; i++) {
                    char nm[5] = { (char) ('a' + i / 17576 % 26), (char) ('a' + i / 676 % 26), (char) ('a' + i / 26 % 26), (char) ('a' + i % 26), 0 };
                    vf_b_name(&TD, nm, 4);
                    vf_b_int(&TD, i);
                }
                vf_b_close(&TD);
                snprintf(label, sizeof label, "wide: object of %d fields", cnt);
            }
            run_doc(&TD, label, 1 + (TD.root_kind == VK_ARR));
        }
}

static void on_doc(vf_gen *g, void *u)
{
    (void) u;
    if (!take()) return;
    if (vf_deadline_passed()) { g->stop = true; return; }
    static vf_doc R;
    int v = vf_ref_decode(g->doc.bytes, g->doc.len, g->doc.root_kind, 255, &R);
    R.bytes = g->doc.bytes; R.len = g->doc.len;
    if (v != VR_OK || !vf_tree_equal(&g->doc, &R)) vf_die("reference decoder disagrees with generator on %s", vf_shape(&g->doc));
    vf_count(CT_GENDOCS, 1);
    if (vf_want_sample() && g->doc.nn >= 4 && (g->index % 1013) == 0) vf_sample("document %s: full traversal, every getter at every stop", vf_shape(&g->doc));
    int need = needed_depth(&g->doc);
    run_doc(&g->doc, vf_shape(&g->doc), need);
    run_doc(&g->doc, vf_shape(&g->doc), need + 3);
    if (P_C10) { LOOKUPS = true; run_doc(&g->doc, "same document, objects traversed by field lookups (a miss before every field)", need); LOOKUPS = false; }
    if (P_C10 && g->doc.nn > 2)
        for (int lv = 0; lv < 3; lv++) {
            static const char *const lab[] = { "same document, containers at level 0 handed to parser_to_writer", "same document, containers at level 1 handed to parser_to_writer", "same document, containers at level 2 handed to parser_to_writer" };
            P2W_LEVEL = lv; run_doc(&g->doc, lab[lv], need); P2W_LEVEL = -1;
        }
    if (!P_C05 && g->doc.nn > 2) { PREPASS = true; run_doc(&g->doc, "same document after a dive to the deepest level and a reset", need); PREPASS = false; }
}

static void corpus(void)
{
    char path[512];
    snprintf(path, sizeof path, "%s/utest/test_data/valid_objects", getenv("VERIF_REPO") ? getenv("VERIF_REPO") : "/repo");
    struct dirent **list;
    int n = scandir(path, &list, NULL, alphasort);
    if (n < 0) return;
    static uint8_t b[65536];
    static vf_doc R;
    for (int i = 0; i < n; i++) {
        if (list[i]->d_name[0] != '.' && take()) {
            char f[800];
            snprintf(f, sizeof f, "%s/%s", path, list[i]->d_name);
            FILE *fp = fopen(f, "rb");
            if (fp) {
                size_t l = fread(b, 1, sizeof b, fp);
                fclose(fp);
                /* the reference tree has a fixed capacity of 600 nodes; every node takes at least one byte */
                if (l > 500) { vf_count(CT_CORPUS_SKIPPED, 1); }
                else if (vf_ref_decode(b, l, VK_OBJ, 255, &R) == VR_OK) {
                    R.bytes = b; R.len = l; R.root_kind = VK_OBJ;
                    vf_count(CT_CORPUS, 1);
                    int need = needed_depth(&R);
                    run_doc(&R, f, need < 16 ? need : 16);
                }
            }
        }
        free(list[i]);
    }
    free(list);
}

static int N_DOC;
/* giant writes (C05, thorough tier, only with >= 8 GiB of free memory): a string and a bytes value of exactly INT32_MAX and INT32_MAX - 1
 * bytes - the largest the format allows - written from a lazily backed source into a lazily backed destination of exactly the
 * encoded size, then verified by the parser. About 2 GiB are really copied per case. */
static void giant_writes(void)
{
    if (!vf_g.thorough || !P_C05) return;
    long pages = sysconf(_SC_AVPHYS_PAGES), psz = sysconf(_SC_PAGESIZE);
    if (pages <= 0 || psz <= 0 || (double) pages * (double) psz < 8e9) return;
    const size_t maxl = (size_t) INT32_MAX;
    uint8_t *src = (uint8_t *) mmap(NULL, maxl, PROT_READ, MAP_PRIVATE | MAP_ANONYMOUS | MAP_NORESERVE, -1, 0);
    uint8_t *dst = (uint8_t *) mmap(NULL, maxl + 64, PROT_READ | PROT_WRITE, MAP_PRIVATE | MAP_ANONYMOUS | MAP_NORESERVE, -1, 0);
    if (src == MAP_FAILED || dst == MAP_FAILED) return;
    for (int c = 0; c < 4; c++) {
        size_t len = maxl - (size_t) (c & 1);
        bool str = c >= 2;
        size_t size = 1 + 5 + len + 1;
        binson_writer w;
        memset(&w, 0x77, sizeof w);
        vf_stack_paint();
        vf_progress++;
        bool ok = binson_writer_init(&w, dst, size) && binson_write_array_begin(&w);
        bool r = str ? binson_write_string_with_len(&w, (const char *) src, len) : binson_write_bytes(&w, src, len);
        vf_progress++;
        bool e = binson_write_array_end(&w);
        vf_count(CT_CALLS, 4); vf_count(CT_LENGTHS, 1);
        const uint8_t hdr[6] = { 0x42, (uint8_t) (str ? 0x16 : 0x1a), (uint8_t) len, (uint8_t) (len >> 8), (uint8_t) (len >> 16), (uint8_t) (len >> 24) };
        const char *bad = NULL;
        if (!ok || !r || !e || w.error_flags != BINSON_ERROR_NONE) bad = "a write call failed";
        else if (binson_writer_get_counter(&w) != size) bad = "the counter is not the encoded size";
        else if (memcmp(dst, hdr, 6) || dst[size - 1] != 0x43 || dst[6] != 0 || dst[size - 2] != 0) bad = "the stored bytes are not the encoding";
        else {
            binson_state st[2];
            binson_parser p;
            memset(&p, 0, sizeof p);
            p.state = st; p.max_depth = 2;
            vf_progress++;
            if (!binson_parser_init_array(&p, dst, size) || !binson_parser_verify(&p)) bad = "binson_parser_verify rejects the writer's output";
        }
        if (bad) {
            vf_str b = { 0 };
            vf_str_printf(&b, "kind: giant-write\ncase: %d\nlabel: a %s of %zu bytes written into a destination of exactly the encoded size\nmismatch: %s (error %d, counter %zu)\n", c,
                          str ? "string" : "bytes value", len, bad, (int) w.error_flags, binson_writer_get_counter(&w));
            if (vf_g.replay) { printf("replay: %s\nVIOLATION property=%s replay=%s\n", bad, vf_g.prop, vf_g.replay); exit(VF_EXIT_VIOLATION); }
            vf_violation("decode:write:giant", b.s);
            vf_str_free(&b);
        }
        madvise(dst, maxl + 64, MADV_DONTNEED);
    }
    munmap(src, maxl); munmap(dst, maxl + 64);
}

static void worker(int w, int W, uint64_t start)
{
    g_w = w; g_W = W; g_start = start; g_index = 0;
    vf_fatal_describe = describe;
    payload = (uint8_t *) vf_xmalloc(PAYMAX);
    /* string / name payload: no 0x00 anywhere (so that the C-string entry points see the whole value and the string_equals
     * probes are real prefixes / extensions); values with an embedded NUL are a leaf class of the document enumeration */
    for (size_t i = 0; i < PAYMAX; i++) { payload[i] = (uint8_t) (i * 131 + (i >> 8) + 1); if (!payload[i]) payload[i] = 0x7f; }
    payload[6] = 0x80; payload[7] = 0xff;
    payload_bin = (uint8_t *) vf_xmalloc(PAYMAX);
    memcpy(payload_bin, payload, PAYMAX);
    payload_bin[0] = 0x00; payload_bin[5] = 0x00;
    memset(longname, 'n', sizeof longname);
    shape_families();
    value_families();
    if (w == W - 1 && start == 0) giant_writes();
    corpus();
    {   /* sibling family: every pair and triple of small sibling subtrees */
        static vf_gen gs;
        memset(&gs, 0, sizeof gs);
        gs.cb = on_doc;
        vf_sibling_run(&gs, 2);
    }
    static const int cls[] = { LC_INT8, LC_NEG16, LC_INT32, LC_NEG64, LC_INTMIN, LC_STR, LC_STR0, LC_STRNUL, LC_STRHI, LC_STR128, LC_BYT, LC_BYT0, LC_DBL, LC_DBLBIG, LC_TRUE, LC_FALSE, LC_OBJ, LC_ARR };
    static const vf_name names[] = { { (const uint8_t *) "", 0 }, { (const uint8_t *) "a", 1 }, { (const uint8_t *) "a\0b", 3 }, { (const uint8_t *) "a\0c", 3 }, { (const uint8_t *) "aab", 3 }, { (const uint8_t *) "ab", 2 }, { (const uint8_t *) "temp_max", 8 }, { (const uint8_t *) "temp_min", 8 }, { (const uint8_t *) "\x80\xff", 2 } };
    static vf_gen g;
    for (int root = VK_OBJ; root <= VK_ARR; root++) {
        memset(&g, 0, sizeof g);
        g.root_kind = root; g.max_tokens = N_DOC; g.classes = cls; g.nclasses = 18; g.names = names; g.nnames = 9; g.max_obj_depth = 0;
        g.cb = on_doc;
        vf_gen_run(&g);
    }
}

static void replay_main(void)
{
    char *t = vf_replay_load(vf_g.replay);
    { char *kd = vf_replay_get(t, "kind");
      if (kd && !strcmp(kd, "giant-write")) { vf_g.thorough = true; vf_g.wid = 0; giant_writes(); printf("replay: the giant writes produce the encoding\n"); exit(VF_EXIT_OK); } }
    char *root = vf_replay_get(t, "root"), *md = vf_replay_get(t, "max_depth"), *hex = vf_replay_get(t, "doc_hex");
    if (!root || !md || !hex) vf_die("replay file lacks root/max_depth/doc_hex");
    static uint8_t bytes[8192];
    static vf_doc R;
    long n = vf_unhex(bytes, sizeof bytes, hex);
    if (n < 0) vf_die("bad doc_hex (documents longer than 3000 bytes are identified by their label; re-run the check)");
    int kind = !strcmp(root, "object") ? VK_OBJ : VK_ARR;
    if (vf_ref_decode(bytes, (size_t) n, kind, 255, &R) != VR_OK) vf_die("replay document is not valid");
    R.bytes = bytes; R.len = (size_t) n; R.root_kind = kind;
    D = &R; LABEL = "replay"; MDEPTH = atoi(md);
    { char *lb = vf_replay_get(t, "label"); PREPASS = lb && strstr(lb, "after a dive") != NULL; LOOKUPS = lb && strstr(lb, "field lookups") != NULL;
      const char *pl = lb ? strstr(lb, "containers at level ") : NULL; if (pl) P2W_LEVEL = atoi(pl + 20); }
    vf_g.wid = 0;
    vf_fatal_describe = describe;
    vf_install_fatal();
    vf_live_alloc(&L, R.bytes, R.len, MDEPTH, 0);
    bool ok = P_C03 ? traverse_c03() : P_C05 ? traverse_c05() : traverse_c10();
    if (!ok) { printf("replay: %s\nVIOLATION property=%s replay=%s\n", why, vf_g.prop, vf_g.replay); exit(VF_EXIT_VIOLATION); }
    printf("replay: traversal matches the reference\n");
    exit(VF_EXIT_OK);
}

int main(int argc, char **argv)
{
    vf_main_init(argc, argv, "decode", ctr_names);
    P_C03 = !strcmp(vf_g.prop, "C03"); P_C10 = !strcmp(vf_g.prop, "C10"); P_C05 = !strcmp(vf_g.prop, "C05");
    if (!P_C03 && !P_C10 && !P_C05) vf_die("decode decides C03, C05 and C10");
    N_DOC = vf_g.thorough ? 4 : 3;
    const char *e;
    if ((e = getenv("VERIF_N"))) N_DOC = atoi(e);
    if (vf_g.replay) replay_main();
    int deaths = vf_run_workers(worker);
    static char bound[2200];
    snprintf(bound, sizeof bound,
             "every valid object- and array-rooted document with <= %d value tokens over 15 leaf classes (all four integer widths incl. INT64_MIN, empty / NUL-holding / "
             "2-byte-length strings, bytes, doubles, booleans) and names {\"\", \"a\", \"a\\0b\", \"a\\0c\", 0x80 0xff}, at max_depth needed and needed+3; carriers {\"a\":v}, [v], "
             "{<128-byte name>:v} for: all +-2^k+d (k<64,|d|<=3), every integer within %d of +-2^k (k=7..63), %s; doubles: all 2^16 top-16-bit patterns x 5 low "
             "patterns, every byte position x every byte value on 3 bases; string / bytes / name lengths %s; the valid corpus files of <= 500 bytes",
             N_DOC, vf_g.thorough ? 65536 : 2048, vf_g.thorough ? "EVERY integer representable in <= 4 bytes (2^32 values)" : "every integer in [-65536, 65535]",
             vf_g.thorough ? "0..70000 (all)" : "0..600 (all) and 32766..32769, 65535..65537, 70000");
    snprintf(bound + strlen(bound), sizeof bound - strlen(bound),
             "; also: names \"aab\" < \"ab\", \"temp_max\" / \"temp_min\", strings ending in bytes >= 0x80; +-(10^k + d) (k<=18, |d|<=1), 1020 sparse byte patterns as integers and doubles; lengths 4608, "
             "4863, 49152, 65792, 65794, 98304, 131071..131073, 196608, 200000; nesting towers and wide containers (255..65537 members); every pair and triple of small sibling subtrees and "
             "the pairs one level further down%s%s",
             P_C10 ? "; each document also traversed by field lookups (a miss before every field), after a dive and a reset, and with the containers at level 0 / 1 / 2 handed to parser_to_writer" :
             P_C05 ? "; each document written three times: plainly, with every payload staged inside the destination one byte ahead of where it lands, and with a claimed capacity of SIZE_MAX" :
                     "; each document also traversed after a dive to its deepest level and a reset",
             (P_C05 && vf_g.thorough) ? "; giant writes of INT32_MAX and INT32_MAX - 1 bytes (when >= 8 GiB of memory are free)" : "");
    static const char *const assumptions[] = {
        "the traversal is the canonical full depth-first one (enter everything); other navigation orders are C06's subject",
        "integers are exhaustive for the stated ranges, not for all 2^64 values; doubles for the stated bit-pattern alphabet",
        "the reference encoder/decoder (lib/vf_ref.h) is independent of the library and cross-checked against each other on every generated document"
    };
    static const int must03[] = { CT_GENDOCS, CT_INTS, CT_DOUBLES, CT_LENGTHS, CT_EQUALS_TRUE, CT_EQUALS_FALSE, CT_W8, CT_W16, CT_W32, CT_W64, CT_NEG, CT_NAN, CT_CORPUS };
    static const int must10[] = { CT_GENDOCS, CT_INTS, CT_DOUBLES, CT_LENGTHS, CT_TRANSCRIBED_BYTES, CT_W8, CT_W16, CT_W32, CT_W64, CT_NEG, CT_NAN, CT_CORPUS };
    vf_evidence_spec es;
    memset(&es, 0, sizeof es);
    es.c_states = P_C10 ? CT_DOCS : CT_NODES; es.c_transitions = CT_CALLS; es.c_validated = CT_CALLS;
    es.bound = bound;
    es.rule = "exhaustive enumeration of documents and value alphabets; states = document positions visited (C03) / documents (C10), transitions = real API calls, every one compared with the reference tree or the input bytes";
    es.assumptions = assumptions; es.nassumptions = 3;
    if (P_C03 || P_C05) { es.must_be_nonzero = must03; es.n_must = 13; } else { es.must_be_nonzero = must10; es.n_must = 12; }
    return vf_finish(&es, deaths);
}
