/* writer.c - C04: the writer never writes past its buffer and always reports the
 * exact size. Every sequence of <= K write operations (well-formed or not) x
 * EVERY capacity 0..size+1 on an exactly-sized heap destination, in lock step
 * with the reference encoder (see wexp.h). */
#include "../lib/vf_util.h"
#include "../lib/vf_ref.h"
#include "../lib/vf_run.h"
enum { CT_W_SEQS, CT_W_RUNS, CT_W_CALLS, CT_W_OVERFLOW_RUNS, CT_W_FIT_RUNS, CT_W_FALSE_CALLS, CT_W_ERR_RANGE, CT_W_ERR_FORMAT, CT_W_ERR_NULL, CT_W_REINIT_CHECKS, CT_W_STATES };
static const char *const ctr_names[VF_NCTR] = {
    "writer_sequences", "writer_runs_seq_x_capacity", "writer_calls", "writer_overflow_runs", "writer_fitting_runs", "writer_calls_returning_false",
    "writer_reached_error_RANGE", "writer_reached_error_FORMAT_as_final_code", "writer_reached_error_NULL", "writer_reinit_checks", "writer_states_seq_position_x_capacity"
};
#include "wexp.h"

static wexp_cfg CF, CF2, CF3;
static int ALPHA[WO_FIRST_NOENC];
static const int ALPHA_BIG[] = { WO_OBJ_BEGIN, WO_NAME_A, WO_INT_1, WO_STR_128, WO_STR_40000, WO_BYT_32768, WO_OBJ_END };
static wexp_cfg CF4;
static const int ALPHA_SMALL[] = { WO_OBJ_BEGIN, WO_OBJ_END, WO_ARR_BEGIN, WO_TRUE, WO_INT_1, WO_INT_128, WO_INT_2P31, WO_DOUBLE, WO_STR_0, WO_STR_1, WO_STR_128, WO_STRZ_AB, WO_BYT_1, WO_RAW_0, WO_RAW_2, WO_P2W, WO_P2W_REFUSED };
static void worker(int w, int W, uint64_t start)
{
    vf_fatal_describe = wexp_describe;
    /* pass 1: all 26 operations, K operations; pass 2 (thorough): one operation deeper over 16 operations;
     * pass 3 (thorough): the unencodable calls at every position of every sequence of <= 3 of the 26 operations */
    wexp_index_base = 0;
    if (start < (1ULL << 40)) wexp_explore(&CF, w, W, start, "writer");
    if (CF2.K) { wexp_index_base = 1ULL << 40; if (start < (2ULL << 40)) wexp_explore(&CF2, w, W, start >= (1ULL << 40) ? start - (1ULL << 40) : 0, "writer"); }
    if (CF3.K) { wexp_index_base = 2ULL << 40; if (start < (3ULL << 40)) wexp_explore(&CF3, w, W, start >= (2ULL << 40) ? start - (2ULL << 40) : 0, "writer"); }
    /* pass 4: payloads of 32768 and 40000 bytes (4-byte length prefix), capacities around every piece boundary */
    wexp_index_base = 3ULL << 40; if (start < (4ULL << 40)) wexp_explore(&CF4, w, W, start >= (3ULL << 40) ? start - (3ULL << 40) : 0, "writer");
    /* pass 5: single parametric operations over value and length families */
    wexp_index_base = 4ULL << 40; wexp_values(&CF, w, W, start >= (4ULL << 40) ? start - (4ULL << 40) : 0, "writer", vf_g.thorough ? 2100 : 400);
}
int main(int argc, char **argv)
{
    vf_main_init(argc, argv, "writer", ctr_names);
    if (strcmp(vf_g.prop, "C04")) vf_die("writer decides C04");
    memset(&CF, 0, sizeof CF);
    CF.c04 = true;
    CF.K = vf_g.thorough ? 4 : 3;
    const char *e;
    if ((e = getenv("VERIF_K"))) CF.K = atoi(e);
    for (int i = 0; i < WO_FIRST_BIG; i++) ALPHA[i] = i;
    CF.alpha = ALPHA; CF.nalpha = WO_FIRST_BIG;
    CF.with_noenc = CF.K <= 3;
    memset(&CF2, 0, sizeof CF2); memset(&CF3, 0, sizeof CF3);
    CF4 = CF; CF4.K = vf_g.thorough ? 4 : 3; CF4.alpha = ALPHA_BIG; CF4.nalpha = 7; CF4.with_noenc = false;
    if (vf_g.thorough) {
        CF2 = CF; CF2.K = CF.K + 1; CF2.alpha = ALPHA_SMALL; CF2.nalpha = 17; CF2.with_noenc = false;
        CF3 = CF; CF3.K = 3; CF3.with_noenc = true;
    }
    if (vf_g.replay) { char *t = vf_replay_load(vf_g.replay); return wexp_replay(&CF, t); }
    int deaths = vf_run_workers(worker);
    static char bound[2400];
    snprintf(bound, sizeof bound,
             "every sequence of <= %d operations over %d write operations (begin/end object/array, booleans, integers at every width boundary, double, "
             "string_with_len 0/1/127/128/300, write_string, write_name, bytes 0/1/128, write_raw 0/2, parser_to_writer, write_raw from a source inside the writer's own buffer overlapping the destination from below / from above, parser_to_writer with the parser on a scalar)%s x EVERY capacity from 0 to encoded size + 1; "
             "destination = heap block of exactly 'capacity' bytes pre-filled with 0xA5, under ASan",
             CF.K, CF.nalpha, (CF.with_noenc || CF3.K) ? ", plus each of 6 calls that have no encoding (length > INT32_MAX, SIZE_MAX, NULL sources, raw lengths that wrap the counter) inserted at every position of every sequence of <= 3 operations" : "");
    snprintf(bound + strlen(bound), sizeof bound - strlen(bound), "; every sequence of <= %d operations over 7 operations incl. string_with_len(40000) and bytes(32768) x every capacity within 3 of a piece boundary", CF4.K);
    snprintf(bound + strlen(bound), sizeof bound - strlen(bound), "; single parametric operations (alone and between two one-byte tokens) x every capacity: integer +-2^k+d (k<64, |d|<=2) and 1020 sparse byte patterns (each byte 0x00 or a fill), 10 double bit "
             "patterns and the same sparse patterns, string_with_len / bytes / write_string / write_raw of every length 0..%d, and of 2047, 2048, 4608, 4863, 32767..32769, 49152, 65535..65537, 65792, 65794, 70000, 98304, 131071..131073, 196608 bytes at every "
             "capacity within 3 of a piece boundary", vf_g.thorough ? 2100 : 400);
    if (CF2.K) snprintf(bound + strlen(bound), sizeof bound - strlen(bound), "; additionally every sequence of <= %d operations over a 17-operation sub-alphabet x every capacity", CF2.K);
    static const char *const assumptions[] = {
        "pieces are the units the writer stores atomically: a one-byte token, an integer/double token, a length descriptor, a payload",
        "operations without an encoding (length > INT32_MAX, NULL source) are only required to set an error and store nothing; no size is demanded after them",
        "in operation SEQUENCES payload sizes are drawn from {0,1,2,4,127,128,300,32768,40000}; all other lengths and values are explored as single parametric operations"
    };
    static const int must[] = { CT_W_SEQS, CT_W_OVERFLOW_RUNS, CT_W_FIT_RUNS, CT_W_FALSE_CALLS, CT_W_ERR_RANGE };
    vf_evidence_spec es;
    memset(&es, 0, sizeof es);
    es.c_states = CT_W_STATES; es.c_transitions = CT_W_CALLS; es.c_validated = CT_W_CALLS;
    es.bound = bound;
    es.rule = "odometer over operation sequences x all capacities; states = (sequence position, capacity) pairs, transitions = real write calls, each compared with the reference encoder's piece list";
    es.assumptions = assumptions; es.nassumptions = 3;
    es.must_be_nonzero = must; es.n_must = 5;
    return vf_finish(&es, deaths);
}
