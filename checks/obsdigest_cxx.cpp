/* obsdigest_cxx.cpp - C18, C++ wrapper part: digests of serialize() of every small tree (two insertion orders) and
 * of the outcome of deserialize() on every short hostile token sequence, per build configuration. */
extern "C" {
#include "../lib/vf_util.h"
#include "../lib/vf_ref.h"
#include "../lib/vf_gen.h"
}
#include "binson.hpp"
#include <exception>

static const char *LOGSCN; static bool logging;
static uint64_t H1, H2, NOBS, NSTATES, NTRANS;
static void fold(const char *fmt, ...) __attribute__((format(printf, 1, 2)));
static void fold(const char *fmt, ...)
{
    char buf[4096];
    va_list ap;
    va_start(ap, fmt);
    int n = vsnprintf(buf, sizeof buf, fmt, ap);
    va_end(ap);
    if (n < 0) n = 0;
    if ((size_t) n >= sizeof buf) n = sizeof buf - 1;
    H1 = vf_hash_bytes(H1, buf, (size_t) n + 1);
    H2 = vf_hash_bytes(H2 ^ 0x9e3779b97f4a7c15ULL, buf, (size_t) n + 1) * 31;
    NOBS++;
    if (logging) printf("  %s\n", buf);
}
static void scenario_begin(const char *name) { H1 = VF_HASH_INIT; H2 = 0x1234567887654321ULL; NOBS = NSTATES = NTRANS = 0; logging = LOGSCN && !strcmp(LOGSCN, name); if (logging) printf("LOG %s\n", name); }
static void scenario_end(const char *name)
{
    printf("scenario %s %016llx%016llx observations=%llu states=%llu transitions=%llu\n", name, (unsigned long long) vf_mix(H1), (unsigned long long) vf_mix(H2), (unsigned long long) NOBS,
           (unsigned long long) NSTATES, (unsigned long long) NTRANS);
}
static const vf_doc *D;
static BinsonValue mkvalue(int c, bool rev);
static Binson mkobject(int id, bool rev)
{
    std::vector<int> kids;
    for (int ch = D->n[id].first; ch >= 0; ch = D->n[ch].next) kids.push_back(ch);
    Binson b;
    for (size_t i = 0; i < kids.size(); i++) {
        int c = kids[rev ? kids.size() - 1 - i : i];
        b.put(std::string((const char *) D->bytes + D->n[c].name_off, (size_t) D->n[c].name_len), mkvalue(c, rev));
    }
    return b;
}
static BinsonValue mkvalue(int c, bool rev)
{
    const vf_node *x = &D->n[c];
    switch (x->kind) {
    case VK_BOOL: return BinsonValue(x->bval);
    case VK_INT: return BinsonValue((int64_t) x->ival);
    case VK_DBL: { double v; memcpy(&v, &x->dbits, 8); return BinsonValue(v); }
    case VK_STR: return BinsonValue(std::string((const char *) D->bytes + x->pay_off, (size_t) x->pay_len));
    case VK_BYT: return BinsonValue(std::vector<uint8_t>(D->bytes + x->pay_off, D->bytes + x->pay_off + x->pay_len));
    case VK_OBJ: return BinsonValue(mkobject(c, rev));
    default: { std::vector<BinsonValue> a; for (int ch = x->first; ch >= 0; ch = D->n[ch].next) a.push_back(mkvalue(ch, rev)); return BinsonValue(a); }
    }
}
static void tree_doc(vf_gen *g, void *u)
{
    (void) u;
    D = &g->doc;
    static char hx[4096];
    for (int rev = 0; rev < 2; rev++) {
        std::vector<uint8_t> s = mkobject(0, rev != 0).serialize();
        vf_hex(hx, s.data(), s.size() > 2000 ? 2000 : s.size());
        fold("tree %s rev%d -> %zu %s", vf_shape(D), rev, s.size(), hx);
#ifdef BINSON_PARSER_WITH_PRINT
        std::string t = mkobject(0, rev != 0).toStr();
        fold(" toStr %zu %s", t.size(), t.c_str());
#endif
        NTRANS++;
    }
    NSTATES++;
}
static void seq(vf_tokenum *e, void *u)
{
    (void) u;
    for (int ov = 0; ov < 2; ov++) {
        Binson b;
        int outcome;
        try {
            if (ov == 0) { std::vector<uint8_t> v(e->buf, e->buf + e->len); b.deserialize(v); } else b.deserialize(e->buf, e->len);
            outcome = 1;
        } catch (const std::exception &) { outcome = 2; } catch (...) { outcome = 3; }
        size_t ss = 0;
        if (outcome == 1) ss = b.serialize().size();
        fold("deser %s ov%d -> %d %zu", vf_tokenum_label(e), ov, outcome, ss);
        NTRANS++;
    }
    NSTATES++;
}
int main(int argc, char **argv)
{
    for (int i = 1; i < argc; i++) if (!strcmp(argv[i], "--log") && i + 1 < argc) LOGSCN = argv[++i];
    printf("config char_is_%s\n", (char) -1 < 0 ? "signed" : "unsigned");
    scenario_begin("cxx_serialize");
    static const int cls[] = { LC_INT8, LC_NEG32, LC_STR, LC_STRNUL, LC_BYT, LC_DBL, LC_DBLBIG, LC_TRUE, LC_OBJ, LC_ARR };
    static const vf_name names[] = { { (const uint8_t *) "", 0 }, { (const uint8_t *) "a", 1 }, { (const uint8_t *) "a\0", 2 }, { (const uint8_t *) "\x7f", 1 }, { (const uint8_t *) "\x80", 1 }, { (const uint8_t *) "\xff", 1 } };
    static vf_gen g;
    memset(&g, 0, sizeof g);
    g.root_kind = VK_OBJ; g.max_tokens = 2; g.classes = cls; g.nclasses = 10; g.names = names; g.nnames = 6; g.cb = tree_doc;
    vf_gen_run(&g);
    scenario_end("cxx_serialize");
    scenario_begin("cxx_deserialize");
    vf_tokenum e;
    for (int frame = 0; frame <= 1; frame++) {
        memset(&e, 0, sizeof e);
        e.alpha = vf_tok_hostile; e.ntok = VF_NTOK_HOSTILE; e.maxlen = 2; e.frame = frame ? VK_OBJ : 0; e.cb = seq; e.W = 1;
        vf_tokenum_run(&e);
    }
    scenario_end("cxx_deserialize");
    return 0;
}
