/* nav.c - product exploration (implementation x reference cursor) of the
 * navigation protocol on valid documents. Decides
 *   C06  cursor navigation matches the document structure
 *   C07  field lookup
 *   C11  get_raw / parser_to_writer
 * One transition = one public API call on the real object code, restored from
 * a byte-image snapshot; the search runs to a fixpoint per document, so it
 * covers protocol-following call sequences of every length. */
#define VF_MAXNODES 1400      /* rich towers: 5 nodes per level, 254 levels */
#include "../lib/vf_util.h"
#include "../lib/vf_ref.h"
#include "../lib/vf_gen.h"
#include "../lib/vf_run.h"
#include "../lib/vf_snap.h"

enum {
    CT_DOCS, CT_CONFIGS, CT_STATES, CT_TRANS, CT_NEXT_TRUE, CT_NEXT_FALSE, CT_ENTER, CT_LEAVE, CT_LEAVE_PENDING, CT_RAW, CT_TOWRITER,
    CT_RAW_NONCONTAINER, CT_FIELD_HIT, CT_FIELD_MISS, CT_FIELD_MISS_THEN_NEXT, CT_ENSURE_WRONGTYPE, CT_GETTER_CHECKS, CT_CB_CALLS,
    CT_MAXSTATES, CT_MAXHIST, CT_IGNORED_OTHER_PROP, CT_MODEL_STATES
};
static const char *const ctr_names[VF_NCTR] = {
    "documents", "doc_depth_configurations", "product_states", "transitions", "next_true", "next_false_end_of_block", "enter_calls",
    "leave_calls", "leave_while_on_unentered_container", "get_raw_on_container", "parser_to_writer_on_container",
    "get_raw_or_to_writer_on_leaf", "field_hit", "field_miss", "field_miss_followed_by_next", "ensure_wrong_type", "getter_comparisons",
    "callback_invocations", "max_states_one_document", "max_history_length", "mismatches_left_to_other_property", "distinct_model_states"
};

#define MAXF 264            /* deepest reference-cursor stack (array towers of 255 levels) */
#define KF_SMALL 12         /* frames stored in the visited-set key for ordinary documents */
typedef struct {
    int16_t sp;
    int8_t  done, after_raw, after_field, dead;
    int16_t pending;            /* container returned and not yet entered / extracted; -1 none */
    int16_t cur;                /* leaf the cursor is on after a successful next/lookup; -1 none */
    int16_t fr[MAXF], idx[MAXF];
} mstate;
#define MHEAD offsetof(mstate, fr)
static int KF = KF_SMALL;   /* frames in the key for the current document (>= its nesting depth + 1) */
static inline size_t mkey_size(void) { return MHEAD + (size_t) KF * 4; }
static inline void mpack(uint8_t *dst, const mstate *m) { memcpy(dst, m, MHEAD); memcpy(dst + MHEAD, m->fr, (size_t) KF * 2); memcpy(dst + MHEAD + (size_t) KF * 2, m->idx, (size_t) KF * 2); }
static inline void munpack(mstate *m, const uint8_t *src) { memset(m, 0, sizeof *m); memcpy(m, src, MHEAD); memcpy(m->fr, src + MHEAD, (size_t) KF * 2); memcpy(m->idx, src + MHEAD + (size_t) KF * 2, (size_t) KF * 2); }

/* ---- configuration per property */
static int P_C06, P_C07, P_C11;
static const vf_name *Q;       /* query alphabet (C07) */
static int NQ;
#define LNAME "mmmmmmmmmmmmmmmmmmmmmmmmmmmmmmmmmmmmmmmmmmmmmmmmmmmmmmmmmmmmmmmmmmmmmmmmmmmmmmmmmmmmmmmmmmmmmmmmmmmmmmmmmmmmmmmmmmmmmmmmmmmmmmmmmmmmmmmm"
/* 12 names in strictly ascending Binson order: empty, NUL, prefixes, two names that differ only AFTER an embedded
 * NUL, a 128-byte name (2-byte length prefix), bytes 0x7f / 0x80 / 0xff */
static const vf_name names_trap[] = {
    { (const uint8_t *) "", 0 }, { (const uint8_t *) "\0", 1 }, { (const uint8_t *) "a", 1 }, { (const uint8_t *) "a\0", 2 },
    { (const uint8_t *) "a\0b", 3 }, { (const uint8_t *) "a\0c", 3 }, { (const uint8_t *) "ab", 2 }, { (const uint8_t *) "b", 1 },
    { (const uint8_t *) LNAME, 128 }, { (const uint8_t *) "\x7f", 1 }, { (const uint8_t *) "\x80", 1 }, { (const uint8_t *) "\xff", 1 }
};
#define NTRAP 12
/* second family for C07: names whose LENGTH sits on every prefix-width / counter-width boundary, and pairs that share
 * a prefix of 256 and of 65536 bytes (a comparison that truncates its length to 8 or 16 bits sees them as equal) */
#define NHUGE 10
static uint8_t HBUF[32768], KBUF[4][65537], MBUF[127];
static vf_name names_huge[NHUGE];   /* "a" < "h" < h*32767 < h*32768 < k*256+"a" < k*256+"b" < k*65536+"a" < k*65536+"b" < m*127 < "z" */
static vf_name QALL[NTRAP + NHUGE]; /* query alphabet: the 12 trap names + the 10 boundary names */
#define NQALL (NTRAP + NHUGE)

/* ops: 'n' next, 'O' 'A' enter, 'o' 'a' leave, 'r' get_raw, 'w' to_writer,
 * 0x80|variant<<5|q : lookups (variant 0 field_with_length, 1 field (strlen),
 * 2 field_ensure_with_length(INTEGER), 3 field_ensure_with_length(OBJECT); q = index into the query alphabet, < 32) */
typedef uint8_t op_t;
static const char *op_name(op_t op, char *tmp)
{
    switch (op) {
    case 'n': return "next";
    case 'O': return "go_into_object";
    case 'A': return "go_into_array";
    case 'o': return "leave_object";
    case 'a': return "leave_array";
    case 'r': return "get_raw";
    case 'w': return "to_writer";
    case 'R': return "reset";
    case 'V': return "verify";
    default: {
        static const char *const v[] = { "field_with_length", "field", "field_ensure_INTEGER", "field_ensure_OBJECT" };
        int q = op & 31;
        char hx[300];
        vf_hex(hx, Q[q].p, Q[q].len > 8 ? 8 : Q[q].len);
        sprintf(tmp, "%s(%s%s[%zu bytes])", v[(op >> 5) & 3], hx, Q[q].len > 8 ? ".." : "", Q[q].len);
        return tmp;
    }
    }
}

/* ---- per document exploration state */
static vf_doc *D;              /* current document */
static vf_live L;
static int MD;
static vf_set SET;
static size_t SET_REC;
static uint32_t *PARENT;
static op_t *OPOF;
static size_t PCAP;
static vf_set MSET;
static size_t MSET_REC;
static uint64_t cb_count;
static size_t cb_maxused;

/* Interference probe: the user callback (called by the library for every token it processes) uses a SECOND,
 * independent parser on its own small document - a lookup that has to skip a nested container, a getter, a leave.
 * Independent objects cannot interfere (C17), so neither this private traversal nor the call that is in progress on
 * the parser under test may be disturbed; a library that parks call-local state in static storage breaks here. */
static const uint8_t probe_doc[] = { 0x40, 0x14, 0x01, 'a', 0x40, 0x14, 0x01, 'b', 0x42, 0x10, 0x01, 0x10, 0x02, 0x43, 0x41, 0x14, 0x01, 't', 0x10, 0x05, 0x41 };
static binson_state probe_state[3];
static binson_parser probe_parser;
static int probe_failed;
static uint64_t probe_runs;
static void count_cb(binson_parser *p, uint16_t ns, void *ctx)
{
    (void) ns; (void) ctx;
    cb_count++;
    if (p->buffer_used > cb_maxused) cb_maxused = p->buffer_used;
    if (cb_count > 2) return;       /* the first two tokens of every call are enough: the call then goes on with whatever the probe left behind */
    binson_parser *q = &probe_parser;
    if (!q->state) { q->state = probe_state; q->max_depth = 3; if (!binson_parser_init_object(q, probe_doc, sizeof probe_doc)) probe_failed = 1; }
    probe_runs++;
    if (!binson_parser_reset(q) || !binson_parser_go_into_object(q) || binson_parser_field(q, "s") || !binson_parser_field(q, "t") ||
        binson_parser_get_integer(q) != 5 || !binson_parser_leave_object(q) || q->error_flags != BINSON_ERROR_NONE) probe_failed = 2;
}

typedef struct { char why[200]; char sigctx[120]; } mismatch;

/* current context for the fatal handler */
static size_t cur_state;
static int cur_in_bfs;
static op_t cur_hist[4096];
static int cur_nhist;
static op_t cur_op;
static int history_of(size_t s, op_t *out, int cap);

static void describe_case(vf_str *o, const op_t *hist, int nh, int failing_op)
{
    char tmp[128];
    vf_str_printf(o, "root: %s\nmax_depth: %d\ndoc_hex: ", D->root_kind == VK_OBJ ? "object" : "array", MD);
    vf_str_hex(o, D->bytes, D->len);
    vf_str_printf(o, "\nshape: %s\nops:", vf_shape(D));
    for (int i = 0; i < nh; i++) vf_str_printf(o, " %02x", hist[i]);
    if (failing_op >= 0) vf_str_printf(o, " %02x", failing_op);
    vf_str_printf(o, "\nops_readable:");
    for (int i = 0; i < nh; i++) vf_str_printf(o, " %s", op_name(hist[i], tmp));
    if (failing_op >= 0) vf_str_printf(o, " %s", op_name((op_t) failing_op, tmp));
    vf_str_printf(o, "\n");
}
static void fatal_describe(vf_str *o)
{
    if (cur_in_bfs) cur_nhist = history_of(cur_state, cur_hist, 4096);
    describe_case(o, cur_hist, cur_nhist, cur_op);
}

static const char *kind_name(int k) { static const char *const n[] = { "none", "object", "array", "bool", "int", "double", "string", "bytes" }; return n[k]; }

/* the query bytes of a lookup op */
static void op_query(op_t op, const uint8_t **q, size_t *ql)
{
    int v = (op >> 5) & 3, qi = op & 31;
    *q = Q[qi].p;
    *ql = Q[qi].len;
    if (v == 1) *ql = strnlen((const char *) Q[qi].p, Q[qi].len);
}

/* model: is op enabled in m (protocol of the property statement)? */
static bool m_enabled(const mstate *m, op_t op)
{
    if (op == 'R' || op == 'V') return !m->dead && !(m->sp == 0 && !m->done);   /* a restart from anywhere but the start itself */
    if (m->done || m->dead) return false;
    int top = m->sp ? m->fr[m->sp - 1] : -1;
    switch (op) {
    case 'n': return m->sp > 0;
    case 'O': return m->pending >= 0 && D->n[m->pending].kind == VK_OBJ && m->sp < KF;
    case 'A': return m->pending >= 0 && D->n[m->pending].kind == VK_ARR && m->sp < KF;
    case 'o': return m->sp > 0 && D->n[top].kind == VK_OBJ;
    case 'a': return m->sp > 0 && D->n[top].kind == VK_ARR;
    case 'r': case 'w': return m->pending > 0 || (P_C11 && m->cur >= 0);
    default: return m->sp > 0 && D->n[top].kind == VK_OBJ;
    }
}

typedef struct {
    bool ret;
    int  node;          /* node the cursor must be on after a true next / lookup */
    int  rawnode;       /* container whose span r / w must deliver */
    int  err;           /* expected error code */
    bool nonc;          /* r / w on a leaf: must return false and change nothing */
} expect;

static void m_step(mstate *m, op_t op, expect *e)
{
    memset(e, 0, sizeof *e);
    e->ret = true; e->node = -1; e->rawnode = -1; e->err = BINSON_ERROR_NONE;
    int t = m->sp - 1;
    int8_t was_after_field = m->after_field;
    (void) was_after_field;
    bool keepflags = false;
    if (op == 'R' || op == 'V') {       /* back to the start: the root is pending again */
        memset(m, 0, sizeof *m);
        m->pending = 0; m->cur = -1;
        return;
    }
    switch (op) {
    case 'n': {
        const vf_node *c = &D->n[m->fr[t]];
        if (m->idx[t] < c->nch) {
            e->node = vf_child(D, m->fr[t], m->idx[t]);
            m->idx[t]++;
        } else {
            e->ret = false;
        }
        break;
    }
    case 'O': case 'A':
        m->fr[m->sp] = m->pending; m->idx[m->sp] = 0; m->sp++;
        break;
    case 'o': case 'a':
        m->sp--; m->fr[m->sp] = 0; m->idx[m->sp] = 0;
        if (m->sp == 0) m->done = 1;
        break;
    case 'r': case 'w':
        if (m->pending > 0) e->rawnode = m->pending;
        else { e->ret = false; e->nonc = true; keepflags = true; }
        break;
    default: {
        const uint8_t *q; size_t ql;
        op_query(op, &q, &ql);
        int v = (op >> 5) & 3;
        const vf_node *c = &D->n[m->fr[t]];
        e->ret = false;
        while (m->idx[t] < c->nch) {
            int ch = vf_child(D, m->fr[t], m->idx[t]);
            int r = vf_name_cmp(D->bytes + D->n[ch].name_off, (size_t) D->n[ch].name_len, q, ql);
            if (r < 0) { m->idx[t]++; continue; }
            if (r == 0) { m->idx[t]++; e->ret = true; e->node = ch; }
            break;
        }
        if (e->ret && v >= 2) {
            int want = v == 2 ? VK_INT : VK_OBJ;
            if (D->n[e->node].kind != want) { e->ret = false; e->err = BINSON_ERROR_WRONG_TYPE; m->dead = 1; }
        }
        break;
    }
    }
    if (!keepflags) {
        m->pending = -1; m->cur = -1;
        if (e->node >= 0 && !m->dead) {
            if (D->n[e->node].kind == VK_OBJ || D->n[e->node].kind == VK_ARR) m->pending = (int16_t) e->node; else m->cur = (int16_t) e->node;
        }
        m->after_raw = (op == 'r' || op == 'w');
        m->after_field = (op & 0x80) != 0;
    }
}

/* compare the getters with the reference node; returns false + why on mismatch */
static bool check_on_node(int node, mismatch *mm)
{
    const vf_node *x = &D->n[node];
    const uint8_t *base = vf_live_bufptr(&L);
    static const int tmap[] = { 0, BINSON_TYPE_OBJECT, BINSON_TYPE_ARRAY, BINSON_TYPE_BOOLEAN, BINSON_TYPE_INTEGER, BINSON_TYPE_DOUBLE,
                                BINSON_TYPE_STRING, BINSON_TYPE_BYTES };
    binson_type t = binson_parser_get_type(L.p);
    vf_count(CT_GETTER_CHECKS, 1);
    if ((int) t != tmap[x->kind]) {
        snprintf(mm->why, sizeof mm->why, "get_type=%s expected %s (node %d)", vf_type_name(t), kind_name(x->kind), node);
        snprintf(mm->sigctx, sizeof mm->sigctx, "type");
        return false;
    }
    if (x->name_off >= 0) {
        bbuf *nm = binson_parser_get_name(L.p);
        if (!nm || nm->bptr != base + x->name_off || nm->bsize != (size_t) x->name_len) {
            snprintf(mm->why, sizeof mm->why, "get_name=(off %ld,len %zu) expected (off %d,len %d)", nm && nm->bptr ? (long) (nm->bptr - base) : -1L,
                     nm ? nm->bsize : 0, x->name_off, x->name_len);
            snprintf(mm->sigctx, sizeof mm->sigctx, "name");
            return false;
        }
    }
    switch (x->kind) {
    case VK_INT:
        if (binson_parser_get_integer(L.p) != x->ival) {
            snprintf(mm->why, sizeof mm->why, "get_integer=%lld expected %lld", (long long) binson_parser_get_integer(L.p), (long long) x->ival);
            snprintf(mm->sigctx, sizeof mm->sigctx, "value");
            return false;
        }
        break;
    case VK_BOOL:
        if (binson_parser_get_boolean(L.p) != x->bval) { snprintf(mm->why, sizeof mm->why, "get_boolean mismatch"); snprintf(mm->sigctx, sizeof mm->sigctx, "value"); return false; }
        break;
    case VK_DBL: {
        double dv = binson_parser_get_double(L.p);
        if (memcmp(&dv, &x->dbits, 8)) { snprintf(mm->why, sizeof mm->why, "get_double bits mismatch"); snprintf(mm->sigctx, sizeof mm->sigctx, "value"); return false; }
        break;
    }
    case VK_STR: case VK_BYT: {
        bbuf *b = x->kind == VK_STR ? binson_parser_get_string_bbuf(L.p) : binson_parser_get_bytes_bbuf(L.p);
        if (!b || b->bptr != base + x->pay_off || b->bsize != (size_t) x->pay_len) {
            snprintf(mm->why, sizeof mm->why, "string/bytes span mismatch (node %d)", node);
            snprintf(mm->sigctx, sizeof mm->sigctx, "value");
            return false;
        }
        break;
    }
    case VK_OBJ: case VK_ARR: {
        /* identify the container by a non-destructive get_raw on a copy of the state */
        vf_snap keep;
        vf_snap_save(&keep, &L);
        bbuf raw = { 0, NULL };
        bool r = binson_parser_get_raw(L.p, &raw);
        bool ok = r && raw.bptr == base + x->start && raw.bsize == (size_t) (x->end - x->start);
        vf_snap_load(&L, &keep);
        if (!ok) {
            snprintf(mm->why, sizeof mm->why, "container under the cursor is not node %d: probe get_raw ret=%d span=(off %ld,len %zu) expected (off %d,len %d)",
                     node, r, raw.bptr ? (long) (raw.bptr - base) : -1L, raw.bsize, x->start, x->end - x->start);
            snprintf(mm->sigctx, sizeof mm->sigctx, "container-identity");
            return false;
        }
        break;
    }
    default: break;
    }
    if (L.p->error_flags != BINSON_ERROR_NONE) {
        snprintf(mm->why, sizeof mm->why, "getters raised error %s", vf_err_name(L.p->error_flags));
        snprintf(mm->sigctx, sizeof mm->sigctx, "getter-error");
        return false;
    }
    return true;
}

/* a short description of the model position, part of the violation signature */
static void model_context(const mstate *m, char *out, size_t n)
{
    const char *pos = m->pending >= 0 ? (D->n[m->pending].kind == VK_OBJ ? "on-unentered-object" : "on-unentered-array") : (m->cur >= 0 ? "on-leaf" : "no-current");
    const char *in = m->sp == 0 ? "at-root" : (D->n[m->fr[m->sp - 1]].kind == VK_OBJ ? "in-object" : "in-array");
    snprintf(out, n, "%s,%s%s%s", in, pos, m->after_raw ? ",after-raw" : "", m->after_field ? ",after-lookup" : "");
}

/* Executes op on the live parser (already holding the source state) and checks
 * every oracle. m is advanced. Returns true if all oracles hold. */
static bool do_op(mstate *m, op_t op, mismatch *mm, bool counting)
{
    expect e;
    mstate before = *m;
    m_step(m, op, &e);
    size_t d0 = binson_parser_get_depth(L.p);
    size_t used0 = L.p->buffer_used;
    vf_snap img0;
    memset(&img0, 0, sizeof img0);
    if (e.nonc) vf_snap_save(&img0, &L);
    cb_count = 0; cb_maxused = used0;
    L.p->cb = count_cb; L.p->cb_context = NULL;
    bool r = false;
    bbuf raw = { 0, NULL };
    const uint8_t *base = vf_live_bufptr(&L);
    uint8_t *wbuf = NULL;
    binson_writer W;
    memset(&W, 0x77, sizeof W);      /* a writer object holding arbitrary (but fixed) bytes before init */
    size_t wcap = 0;
    mm->why[0] = 0; mm->sigctx[0] = 0;
    vf_progress++;
    bool inplace_bad = false;
    if (op == 'w' && P_C11 && e.rawnode >= 0) {
        /* in-place extraction: a writer that lives INSIDE the parser's own input buffer, one byte below the container, receives the
         * container (source and destination of the copy overlap). Done on the side: input bytes and parser image are restored. */
        vf_snap img;
        vf_snap_save(&img, &L);
        const vf_node *x = &D->n[e.rawnode];
        size_t span = (size_t) (x->end - x->start);
        binson_writer W2;
        memset(&W2, 0x77, sizeof W2);
        binson_writer_init(&W2, L.buf + x->start - 1, span + 1);
        L.p->cb = NULL;
        bool r2 = binson_parser_to_writer(L.p, &W2);
        inplace_bad = !(r2 && W2.buffer_used == span && W2.error_flags == BINSON_ERROR_NONE && !memcmp(L.buf + x->start - 1, D->bytes + x->start, span));
        memcpy(L.buf, D->bytes, D->len);
        vf_snap_load(&L, &img);
        L.p->cb = count_cb; L.p->cb_context = NULL;
        cb_count = 0; cb_maxused = used0;
    }
    vf_stack_paint();
    switch (op) {
    case 'n': r = binson_parser_next(L.p); break;
    case 'O': r = binson_parser_go_into_object(L.p); break;
    case 'A': r = binson_parser_go_into_array(L.p); break;
    case 'o': r = binson_parser_leave_object(L.p); break;
    case 'a': r = binson_parser_leave_array(L.p); break;
    case 'r': r = binson_parser_get_raw(L.p, &raw); break;
    case 'R': used0 = 0; cb_maxused = 0; r = binson_parser_reset(L.p); break;
    case 'V': used0 = 0; cb_maxused = 0; r = binson_parser_verify(L.p); break;
    case 'w': {
        size_t span = e.rawnode >= 0 ? (size_t) (D->n[e.rawnode].end - D->n[e.rawnode].start) : 0;
        wcap = 3 + span;
        wbuf = (uint8_t *) vf_xmalloc(wcap);
        memset(wbuf, 0xA5, wcap);
        binson_writer_init(&W, wbuf, wcap);
        binson_write_raw(&W, (const uint8_t *) "\x42\x44\x45", 3);
        r = binson_parser_to_writer(L.p, &W);
        break;
    }
    default: {
        const uint8_t *q; size_t ql;
        int v = (op >> 5) & 3;
        int qi = op & 31;
        /* the library gets private heap copies of the query made once per process: an exact-size one (ASan guards both
         * ends) for the explicit-length calls, a NUL-terminated one for the strlen-based call */
        static char *qexact[32], *qz[32];
        size_t full = Q[qi].len;
        if (!qexact[qi]) {
            qexact[qi] = (char *) vf_xmalloc(full ? full : 1);
            memcpy(qexact[qi], Q[qi].p, full);
            qz[qi] = (char *) vf_xmalloc(full + 1);
            memcpy(qz[qi], Q[qi].p, full);
            qz[qi][full] = 0;
        }
        op_query(op, &q, &ql);
        if (v == 0) r = binson_parser_field_with_length(L.p, full ? qexact[qi] : qexact[qi] + 1, full);
        else if (v == 1) r = binson_parser_field(L.p, qz[qi]);
        else r = binson_parser_field_ensure_with_length(L.p, full ? qexact[qi] : qexact[qi] + 1, full, v == 2 ? BINSON_TYPE_INTEGER : BINSON_TYPE_OBJECT);
        break;
    }
    }
    /* freeze the work counters of THIS call (the container-identity probe below runs the parser again) */
    const uint64_t call_cb = cb_count;
    const size_t call_maxused = cb_maxused;
    if (counting) {
        vf_count(CT_TRANS, 1);
        vf_count(CT_CB_CALLS, cb_count);
        switch (op) {
        case 'n': vf_count(e.ret ? CT_NEXT_TRUE : CT_NEXT_FALSE, 1); break;
        case 'O': case 'A': vf_count(CT_ENTER, 1); break;
        case 'o': case 'a': vf_count(CT_LEAVE, 1); if (before.pending >= 0) vf_count(CT_LEAVE_PENDING, 1); break;
        case 'r': vf_count(e.nonc ? CT_RAW_NONCONTAINER : CT_RAW, 1); break;
        case 'w': vf_count(e.nonc ? CT_RAW_NONCONTAINER : CT_TOWRITER, 1); break;
        default: vf_count(e.ret ? CT_FIELD_HIT : (e.err ? CT_ENSURE_WRONGTYPE : CT_FIELD_MISS), 1); break;
        }
        if (op == 'n' && before.after_field && before.pending < 0 && before.cur < 0) vf_count(CT_FIELD_MISS_THEN_NEXT, 1);
    }
    bool ok = true;
    if (probe_failed) {
        snprintf(mm->why, sizeof mm->why, "a second, independent parser used from the token callback during this call misbehaved (code %d): the two objects interfere", probe_failed);
        snprintf(mm->sigctx, sizeof mm->sigctx, "interference");
        probe_failed = 0;
        ok = false;
    } else if (inplace_bad) {
        snprintf(mm->why, sizeof mm->why, "to_writer into a writer placed one byte below the container inside the parser's own buffer did not deliver the container's bytes");
        snprintf(mm->sigctx, sizeof mm->sigctx, "inplace");
        ok = false;
    } else if (r != e.ret) {
        snprintf(mm->why, sizeof mm->why, "returned %s, reference cursor says %s", r ? "true" : "false", e.ret ? "true" : "false");
        snprintf(mm->sigctx, sizeof mm->sigctx, "ret=%d", r);
        ok = false;
    } else if ((int) L.p->error_flags != e.err) {
        snprintf(mm->why, sizeof mm->why, "error_flags=%s expected %s", vf_err_name(L.p->error_flags), vf_err_name(e.err));
        snprintf(mm->sigctx, sizeof mm->sigctx, "err=%s", vf_err_name(L.p->error_flags));
        ok = false;
    }
    if (ok) {
        long dd = (long) binson_parser_get_depth(L.p) - (long) d0;
        long want = op == 'O' ? 1 : (op == 'o' ? -1 : 0);
        if (op == 'R' || op == 'V') { dd = (long) binson_parser_get_depth(L.p); want = D->root_kind == VK_ARR ? 1 : 0; }
        if (dd != want) {
            snprintf(mm->why, sizeof mm->why, "get_depth moved by %ld, expected %ld", dd, want);
            snprintf(mm->sigctx, sizeof mm->sigctx, "depth");
            ok = false;
        }
    }
    if (ok && (op == 'r' || op == 'w')) {
        if (e.nonc) {
            vf_snap img1;
            vf_snap_save(&img1, &L);
            img1.p.cb = img0.p.cb; img1.p.cb_context = img0.p.cb_context;
            if (memcmp(&img0, &img1, sizeof img0)) {
                snprintf(mm->why, sizeof mm->why, "call on a non-container value changed the parser state");
                snprintf(mm->sigctx, sizeof mm->sigctx, "noncontainer-changed-parser");
                ok = false;
            }
            if (ok && op == 'w' && (W.buffer_used != 3 || W.error_flags != BINSON_ERROR_NONE || memcmp(wbuf, "\x42\x44\x45", 3))) {
                snprintf(mm->why, sizeof mm->why, "to_writer on a non-container value changed the writer");
                snprintf(mm->sigctx, sizeof mm->sigctx, "noncontainer-changed-writer");
                ok = false;
            }
        } else {
            const vf_node *x = &D->n[e.rawnode];
            size_t span = (size_t) (x->end - x->start);
            if (op == 'r') {
                if (raw.bptr != base + x->start || raw.bsize != span) {
                    snprintf(mm->why, sizeof mm->why, "raw span (off %ld,len %zu) expected (off %d,len %zu)", raw.bptr ? (long) (raw.bptr - base) : -1L, raw.bsize,
                             x->start, span);
                    snprintf(mm->sigctx, sizeof mm->sigctx, "rawspan");
                    ok = false;
                } else if (P_C11) {
                    /* the span alone must be a valid document of its kind: reference and library */
                    int v = vf_ref_decode(raw.bptr, raw.bsize, x->kind, 255, NULL);
                    vf_live S;
                    vf_live_alloc(&S, raw.bptr, raw.bsize, MD + 1, 0);
                    bool iok = (x->kind == VK_OBJ ? binson_parser_init_object(S.p, S.buf, S.len) : binson_parser_init_array(S.p, S.buf, S.len)) &&
                               binson_parser_verify(S.p);
                    vf_live_free(&S);
                    if (v != VR_OK || !iok) {
                        snprintf(mm->why, sizeof mm->why, "extracted span is not a valid standalone document (ref=%s, library verify=%d)", vf_vr_name[v], iok);
                        snprintf(mm->sigctx, sizeof mm->sigctx, "raw-not-standalone");
                        ok = false;
                    }
                }
            } else {
                if (W.error_flags != BINSON_ERROR_NONE || W.buffer_used != 3 + span || memcmp(wbuf, "\x42\x44\x45", 3) ||
                    memcmp(wbuf + 3, D->bytes + x->start, span)) {
                    snprintf(mm->why, sizeof mm->why, "writer after to_writer: used=%zu err=%s, expected prefix + %zu container bytes", W.buffer_used,
                             vf_err_name(W.error_flags), span);
                    snprintf(mm->sigctx, sizeof mm->sigctx, "towriter-content");
                    ok = false;
                }
            }
        }
    }
    free(wbuf);
    if (ok && e.ret && e.node >= 0) ok = check_on_node(e.node, mm);
    if (ok) {
        /* C16 on protocol traces: work linear in the bytes moved over */
        size_t adv = call_maxused - used0;
        if (call_cb > 2 * adv + 3) {
            snprintf(mm->why, sizeof mm->why, "%llu token callbacks for %zu bytes advanced", (unsigned long long) call_cb, adv);
            snprintf(mm->sigctx, sizeof mm->sigctx, "work");
            ok = false;
        } else if (op != 'R' && op != 'V' && L.p->error_flags == BINSON_ERROR_NONE && call_maxused > L.p->buffer_used) {
            size_t back = call_maxused - L.p->buffer_used;
            size_t allowed = ((op & 0x80) && !r) ? vf_name_token_size_at(&L, L.p->buffer_used) : 0;
            if (back > allowed) {
                snprintf(mm->why, sizeof mm->why, "scanned up to offset %zu but left the cursor at %zu: %zu bytes will be processed again", call_maxused, L.p->buffer_used, back);
                snprintf(mm->sigctx, sizeof mm->sigctx, "rewind");
                ok = false;
            }
        }
    }
    (void) before;
    return ok;
}

/* should a mismatch at (before-state, op) be reported under the property being decided? */
static bool attributable(const mstate *before, op_t op, const mismatch *mm)
{
    if (P_C06) return true;
    /* the container-identity probe IS a get_raw on the container just reported: its failure is C11's */
    if (P_C11) return op == 'r' || op == 'w' || before->after_raw || !strcmp(mm->sigctx, "container-identity");
    if (P_C07) return (op & 0x80) || before->after_field;
    return true;
}

static void init_live(void)
{
    vf_live_alloc(&L, D->bytes, D->len, MD, 0);
    bool ok = D->root_kind == VK_OBJ ? binson_parser_init_object(L.p, L.buf, L.len) : binson_parser_init_array(L.p, L.buf, L.len);
    if (!ok) vf_die("init rejected a generated valid document %s", vf_shape(D));
}

/* re-executes a history on a fresh parser; returns the index of the first
 * failing op (or -1) and its mismatch */
static int run_history(const op_t *h, int n, mismatch *mm, mstate *mout, mstate *mbefore)
{
    init_live();
    mstate m;
    memset(&m, 0, sizeof m);
    m.pending = 0; m.cur = -1;
    int bad = -1;
    cur_in_bfs = 0;
    for (int i = 0; i < n; i++) {
        if (!m_enabled(&m, h[i])) { snprintf(mm->why, sizeof mm->why, "op %d not enabled by the protocol", i); bad = -2; break; }
        if (mbefore) *mbefore = m;
        memcpy(cur_hist, h, (size_t) i); cur_nhist = i; cur_op = h[i];
        if (!do_op(&m, h[i], mm, false)) { bad = i; break; }
    }
    if (mout) *mout = m;
    vf_live_free(&L);
    return bad;
}

static int history_of(size_t s, op_t *out, int cap)
{
    int n = 0;
    while (s != 0) {
        if (n == cap) vf_die("history too long");
        out[n++] = OPOF[s];
        s = PARENT[s];
    }
    for (int i = 0; i < n / 2; i++) { op_t t = out[i]; out[i] = out[n - 1 - i]; out[n - 1 - i] = t; }
    return n;
}

static void report(size_t from, op_t op, const mstate *before, const mismatch *mm_in)
{
    mismatch mm_copy = *mm_in, *mm = &mm_copy;
    static op_t h[4100];
    int n = history_of(from, h, 4096);
    h[n] = op;
    /* determinism guard: the failure must reproduce, twice, on a fresh parser */
    vf_live keep = L;
    for (int k = 0; k < 2; k++) {
        mismatch m2;
        int bad = run_history(h, n + 1, &m2, NULL, NULL);
        if (bad != n) vf_die("violation did not reproduce on replay (%s vs %s): nondeterministic harness", mm->why, m2.why);
        if (strcmp(m2.why, mm->why) && !strstr(mm->why, "[details vary from run to run")) {
            size_t l = strlen(mm->why);
            snprintf(mm->why + l, sizeof mm->why - l, " [details vary from run to run with identical inputs]");
        }
    }
    L = keep;
    char ctx[100], tmp[128], sig[400];
    model_context(before, ctx, sizeof ctx);
    snprintf(sig, sizeof sig, "nav:%s:%s:%s", (op & 0x80) ? ((op >> 5) & 2 ? "field_ensure" : "field") : op_name(op, tmp), mm->sigctx, ctx);
    vf_str b = { 0 };
    describe_case(&b, h, n, op);
    vf_str_printf(&b, "mismatch: %s\n", mm->why);
    vf_violation(sig, b.s);
    vf_str_free(&b);
}

static void explore_config(const op_t *ops, int nops)
{
    init_live();
    size_t isz = vf_snap_size(MD);
    size_t rec = isz + mkey_size();
    if (rec != SET_REC) {
        if (SET_REC) vf_set_free(&SET);
        vf_set_init(&SET, rec);
        SET_REC = rec;
    } else {
        vf_set_clear(&SET);
    }
    if (mkey_size() != MSET_REC) { if (MSET_REC) vf_set_free(&MSET); vf_set_init(&MSET, mkey_size()); MSET_REC = mkey_size(); } else vf_set_clear(&MSET);
    uint8_t *key = (uint8_t *) alloca(rec);
    vf_snap snap;
    mstate m0;
    memset(&m0, 0, sizeof m0);
    m0.pending = 0; m0.cur = -1;
    L.p->cb = count_cb; L.p->cb_context = NULL;
    vf_snap_save(&snap, &L);
    memcpy(key, &snap, isz);
    mpack(key + isz, &m0);
    bool isnew;
    vf_set_insert(&SET, key, &isnew);
    vf_set_insert(&MSET, key + isz, &isnew);
    vf_count(CT_CONFIGS, 1);
    for (size_t s = 0; s < SET.n; s++) {
        mstate ms;
        munpack(&ms, vf_set_at(&SET, s) + isz);
        for (int oi = 0; oi < nops; oi++) {
            op_t op = ops[oi];
            if (!m_enabled(&ms, op)) continue;
            memcpy(&snap, vf_set_at(&SET, s), isz);
            vf_snap_load(&L, &snap);
            mstate m = ms;
            mismatch mm;
            cur_state = s; cur_op = op; cur_in_bfs = 1;     /* fatal handler reconstructs the history lazily */
            if (!do_op(&m, op, &mm, true)) {
                if (attributable(&ms, op, &mm)) report(s, op, &ms, &mm);
                else vf_count(CT_IGNORED_OTHER_PROP, 1);
                continue;       /* do not expand a failing state */
            }
            L.p->cb = count_cb; L.p->cb_context = NULL;
            vf_snap_save(&snap, &L);
            memcpy(key, &snap, isz);
            mpack(key + isz, &m);
            size_t idx = vf_set_insert(&SET, key, &isnew);
            if (isnew) {
                if (idx >= PCAP) {
                    PCAP = PCAP ? PCAP * 2 : 4096;
                    PARENT = (uint32_t *) vf_xrealloc(PARENT, PCAP * sizeof *PARENT);
                    OPOF = (op_t *) vf_xrealloc(OPOF, PCAP);
                }
                PARENT[idx] = (uint32_t) s;
                OPOF[idx] = op;
                vf_set_insert(&MSET, key + isz, &isnew);
            }
        }
    }
    vf_count(CT_STATES, SET.n);
    vf_count(CT_MODEL_STATES, MSET.n);
    vf_max(CT_MAXSTATES, SET.n);
    if (vf_want_sample() && SET.n > 20) {
        static op_t h[4100];
        char tmp[128];
        int n = history_of(SET.n - 1, h, 4096);
        vf_str s = { 0 };
        vf_str_printf(&s, "doc %.200s (%s root, max_depth %d): %zu product states; deepest history (%d calls):", vf_shape(D), D->root_kind == VK_OBJ ? "object" : "array", MD, SET.n, n);
        for (int i = 0; i < n && i < 24; i++) vf_str_printf(&s, " %s", op_name(h[i], tmp));
        vf_sample("%s", s.s);
        vf_str_free(&s);
    }
    {
        op_t h[4100];
        int n = history_of(SET.n - 1, h, 4096);
        vf_max(CT_MAXHIST, (uint64_t) n);
    }
    vf_live_free(&L);
}

static int needed_depth(const vf_doc *d)
{
    int best = 1;
    for (int i = 0; i < d->nn; i++) {
        int od = d->root_kind == VK_ARR ? 1 : 0;
        for (int x = i; x >= 0; x = d->n[x].parent) if (d->n[x].kind == VK_OBJ) od++;
        if (od > best) best = od;
    }
    return best;
}

static op_t OPS[160];
static int NOPS;
static op_t OPS_LOOKUP[64];        /* C06: the six navigation operations, reset, verify and field_with_length over every query name */
static int NOPS_LOOKUP;
static const op_t *CUR_OPS; static int CUR_NOPS;
static int nesting_of(const vf_doc *d)
{
    int best = 0;
    for (int i = 0; i < d->nn; i++) {
        if (d->n[i].kind != VK_OBJ && d->n[i].kind != VK_ARR) continue;
        int k = 0;
        for (int x = i; x >= 0; x = d->n[x].parent) k++;
        if (k > best) best = k;
    }
    return best;
}
static void explore_config(const op_t *ops, int nops);
static int needed_depth(const vf_doc *d);
static void handle_doc(vf_doc *d)
{
    D = d;
    /* oracle self-check: the independent decoder must reproduce the generator's tree */
    static vf_doc R;
    int v = vf_ref_decode(D->bytes, D->len, D->root_kind, 255, &R);
    R.bytes = D->bytes; R.len = D->len;
    if (v != VR_OK || !vf_tree_equal(D, &R)) vf_die("reference decoder disagrees with generator on %s", vf_shape(D));
    vf_count(CT_DOCS, 1);
    KF = nesting_of(D) + 1 < KF_SMALL ? KF_SMALL : MAXF;
    int need = needed_depth(D);
    if (need + 1 > VF_MAXDEPTH_SNAP) vf_die("document too deep for the snapshot type");
    MD = need;
    explore_config(CUR_OPS ? CUR_OPS : OPS, CUR_OPS ? CUR_NOPS : NOPS);
    MD = need + 1;
    explore_config(CUR_OPS ? CUR_OPS : OPS, CUR_OPS ? CUR_NOPS : NOPS);
}
static int g_w, g_W;
static uint64_t g_start;

static int N_TOK, N_TOK_DEEP, N_BIG, N_LOOKUP;
static uint64_t g_docindex;
static bool take_doc(void)
{
    uint64_t di = g_docindex++;
    if (di < g_start || (int) (di % (uint64_t) g_W) != g_w) return false;
    vf_set_index(di);
    return !vf_deadline_passed();
}
/* nesting towers: k arrays, each holding the inner array followed by an integer, the innermost holding [int, string];
 * also as the value of a field, followed by another field. k up to 255 = the array nesting limit. */
static void towers(void)
{
    static vf_doc t;
    static const int ks[] = { 2, 13, 126, 127, 128, 129, 200, 254, 255 };
    for (size_t ki = 0; ki < sizeof ks / sizeof ks[0]; ki++)
        for (int variant = 0; variant < 2; variant++) {
            int k = ks[ki] - variant;       /* inside an object field one level is used by ... nothing: arrays count per object level */
            if (k < 1) continue;
            if (!take_doc()) continue;
            vf_b_reset(&t);
            int leaf = 0;
            if (variant) { vf_b_open(&t, VK_OBJ); vf_b_name(&t, "a", 1); k = ks[ki]; }
            for (int i = 0; i < k; i++) vf_b_open(&t, VK_ARR);
            vf_b_int(&t, ++leaf); vf_b_blob(&t, VK_STR, "s", 1);
            for (int i = 0; i < k; i++) { vf_b_close(&t); if (i < k - 1) vf_b_int(&t, 10 + (++leaf) % 100); }
            if (variant) { vf_b_name(&t, "b", 1); vf_b_int(&t, 99); vf_b_close(&t); }
            handle_doc(&t);
        }
    /* rich towers: k nested arrays where every level holds, before the inner array, an object with an array-valued field (to be
     * skipped or entered) and, after it, an integer - the depth bookkeeping of a skip at level 8 / 16 / 32 / ... meets both counters */
    static const int rk[] = { 2, 7, 8, 9, 15, 16, 17, 31, 32, 33, 63, 64, 65, 127, 128, 129, 253, 254 };
    for (size_t ki = 0; ki < sizeof rk / sizeof rk[0]; ki++)
        for (int variant = 0; variant < 2; variant++) {
            if (!take_doc()) continue;
            int k = rk[ki], leaf = 0;
            vf_b_reset(&t);
            if (variant) { vf_b_open(&t, VK_OBJ); vf_b_name(&t, "a", 1); }
            for (int i = 0; i < k; i++) {
                vf_b_open(&t, VK_ARR);
                vf_b_open(&t, VK_OBJ); vf_b_name(&t, "x", 1); vf_b_open(&t, VK_ARR); vf_b_int(&t, 1 + (++leaf) % 100); vf_b_close(&t); vf_b_close(&t);
            }
            vf_b_blob(&t, VK_STR, "s", 1);
            for (int i = 0; i < k; i++) { vf_b_close(&t); if (i < k - 1) vf_b_int(&t, -1 - (++leaf) % 100); }
            if (variant) { vf_b_name(&t, "b", 1); vf_b_int(&t, 120); vf_b_close(&t); }
            handle_doc(&t);
        }
    /* containers that start beyond offset 65536 (16-bit offsets wrap) */
    for (int variant = 0; variant < 2; variant++) {
        if (!take_doc()) continue;
        static uint8_t blob[70000];
        memset(blob, 0xb1, sizeof blob);
        vf_b_reset(&t);
        if (variant == 0) {
            vf_b_open(&t, VK_OBJ); vf_b_name(&t, "a", 1); vf_b_blob(&t, VK_BYT, blob, sizeof blob);
            vf_b_name(&t, "b", 1); vf_b_open(&t, VK_OBJ); vf_b_name(&t, "x", 1); vf_b_int(&t, 1); vf_b_close(&t);
            vf_b_name(&t, "c", 1); vf_b_open(&t, VK_ARR); vf_b_int(&t, 2); vf_b_open(&t, VK_ARR); vf_b_int(&t, 3); vf_b_close(&t); vf_b_blob(&t, VK_STR, "s", 1); vf_b_close(&t);
            vf_b_name(&t, "d", 1); vf_b_int(&t, 4); vf_b_close(&t);
        } else {
            vf_b_open(&t, VK_ARR); vf_b_blob(&t, VK_STR, blob, 66000); vf_b_open(&t, VK_ARR); vf_b_int(&t, 1); vf_b_close(&t);
            vf_b_open(&t, VK_OBJ); vf_b_name(&t, "k", 1); vf_b_open(&t, VK_OBJ); vf_b_close(&t); vf_b_close(&t); vf_b_int(&t, 2); vf_b_close(&t);
        }
        handle_doc(&t);
    }
    /* object towers up to the snapshot limit */
    static const int os[] = { 10, 14 };
    for (int oi = 0; oi < 2; oi++) {
        if (!take_doc()) continue;
        vf_b_reset(&t);
        vf_b_open(&t, VK_OBJ);
        for (int i = 1; i < os[oi]; i++) { vf_b_name(&t, "a", 1); vf_b_open(&t, VK_OBJ); }
        vf_b_name(&t, "a", 1); vf_b_int(&t, 1);
        for (int i = 1; i < os[oi]; i++) { vf_b_close(&t); vf_b_name(&t, "b", 1); vf_b_int(&t, 2 + i); }
        vf_b_close(&t);
        handle_doc(&t);
    }
}
static void on_doc(vf_gen *g, void *u)
{
    (void) u;
    uint64_t di = g_docindex++;
    if (di < g_start || (int) (di % (uint64_t) g_W) != g_w) return;
    if (vf_deadline_passed()) { g->stop = true; return; }
    vf_set_index(di);
    handle_doc(&g->doc);
}
static void worker(int w, int W, uint64_t start)
{
    g_w = w; g_W = W; g_start = start; g_docindex = 0;
    vf_fatal_describe = fatal_describe;
    static const int cls_nav[] = { LC_INT8, LC_STR, LC_STR128, LC_OBJ, LC_ARR };     /* LC_STR128: a value with a 2-byte length prefix to skip over */
    static const int cls_nav4[] = { LC_INT8, LC_STR, LC_OBJ, LC_ARR };
    static const int cls_big[] = { LC_INT8, LC_STR32K, LC_BYT32K, LC_OBJ, LC_ARR };  /* values that need the 4-byte length prefix */
    static const int cls_c07[] = { LC_INT8, LC_OBJ, LC_ARR };
    static vf_gen g;
    if (!P_C07) towers();
    /* pass 0: the full leaf alphabet up to N_TOK tokens; pass 1 (C06/C11 thorough): one token deeper without the long string;
     * C07 pass 1: the boundary-length name family; pass 2 (C06/C11): 32768-byte values */
    for (int pass = 0; pass < 3; pass++) {
        if (pass == 1 && !(N_TOK_DEEP > N_TOK || P_C07)) continue;
        if (pass == 2 && P_C07) continue;
        for (int root = VK_OBJ; root <= VK_ARR; root++) {
            memset(&g, 0, sizeof g);
            g.root_kind = root;
            g.max_tokens = pass == 1 ? N_TOK_DEEP : N_TOK;
            if (P_C07 && pass) { g.classes = cls_c07; g.nclasses = 3; g.names = names_huge; g.nnames = NHUGE; g.max_obj_depth = 2; g.max_tokens = N_TOK - 1; }
            else if (P_C07) { g.classes = cls_c07; g.nclasses = 3; g.names = names_trap; g.nnames = NTRAP; g.max_obj_depth = 3; }
            else if (pass == 2) { g.classes = cls_big; g.nclasses = 5; g.names = vf_names_abc; g.nnames = 2; g.max_obj_depth = 3; g.max_tokens = N_BIG; }
            else if (pass == 1) { g.classes = cls_nav4; g.nclasses = 4; g.names = vf_names_abc; g.nnames = 3; g.max_obj_depth = 6; }
            else { g.classes = cls_nav; g.nclasses = 5; g.names = vf_names_abc; g.nnames = 3; g.max_obj_depth = 6; }
            g.cb = on_doc;
            vf_gen_run(&g);
        }
    }
    /* sibling family: every pair (thorough: and triple) of small sibling subtrees, inner names "" and "a" */
    memset(&g, 0, sizeof g);
    g.cb = on_doc;
    vf_sibling_run(&g, vf_g.thorough ? 2 : 1);
    /* C06: navigation DRIVEN BY LOOKUPS ("enter only a container that next or a field lookup has just returned"): the trap-name
     * and boundary-name families with field_with_length over all query names mixed into the navigation operations */
    if (P_C06) {
        CUR_OPS = OPS_LOOKUP; CUR_NOPS = NOPS_LOOKUP;
        for (int fam = 0; fam < 2; fam++)
            for (int root = VK_OBJ; root <= VK_ARR; root++) {
                memset(&g, 0, sizeof g);
                g.root_kind = root; g.classes = cls_c07; g.nclasses = 3; g.cb = on_doc;
                if (fam == 0) { g.names = names_trap; g.nnames = NTRAP; g.max_obj_depth = 3; g.max_tokens = N_LOOKUP; }
                else { g.names = names_huge; g.nnames = NHUGE; g.max_obj_depth = 2; g.max_tokens = N_LOOKUP - 1; }
                vf_gen_run(&g);
            }
        memset(&g, 0, sizeof g);
        g.cb = on_doc;
        vf_sibling_run(&g, 1);
        CUR_OPS = NULL;
    }
}

static void replay_main(void)
{
    char *t = vf_replay_load(vf_g.replay);
    char *root = vf_replay_get(t, "root"), *md = vf_replay_get(t, "max_depth"), *hex = vf_replay_get(t, "doc_hex"), *ops = vf_replay_get(t, "ops");
    if (!root || !md || !hex || !ops) vf_die("replay file lacks root/max_depth/doc_hex/ops");
    static vf_doc R;
    static uint8_t bytes[1 << 19];
    long n = vf_unhex(bytes, sizeof bytes, hex);
    if (n < 0) vf_die("bad doc_hex");
    int kind = !strcmp(root, "object") ? VK_OBJ : VK_ARR;
    if (vf_ref_decode(bytes, (size_t) n, kind, 255, &R) != VR_OK) vf_die("replay document is not valid");
    R.bytes = bytes; R.len = (size_t) n; R.root_kind = kind;
    D = &R;
    MD = atoi(md);
    op_t h[4096];
    int nh = 0;
    for (char *p = ops; *p;) {
        while (*p == ' ') p++;
        if (!*p) break;
        h[nh++] = (op_t) strtoul(p, &p, 16);
    }
    mismatch mm;
    mstate mb;
    vf_g.wid = 0;
    int bad = run_history(h, nh, &mm, NULL, &mb);
    if (bad == -2) vf_die("replay: %s", mm.why);
    char tmp[128];
    if (bad >= 0) {
        printf("replay: op %d (%s) fails: %s\n", bad, op_name(h[bad], tmp), mm.why);
        printf("VIOLATION property=%s replay=%s\n", vf_g.prop, vf_g.replay);
        exit(VF_EXIT_VIOLATION);
    }
    printf("replay: history of %d ops passes all oracles\n", nh);
    exit(VF_EXIT_OK);
}

int main(int argc, char **argv)
{
    vf_main_init(argc, argv, "nav", ctr_names);
    P_C06 = !strcmp(vf_g.prop, "C06"); P_C07 = !strcmp(vf_g.prop, "C07"); P_C11 = !strcmp(vf_g.prop, "C11");
    if (!P_C06 && !P_C07 && !P_C11) vf_die("nav decides C06, C07, C11");
    memset(HBUF, 'h', sizeof HBUF); memset(MBUF, 'm', sizeof MBUF);
    for (int i = 0; i < 4; i++) memset(KBUF[i], 'k', sizeof KBUF[i]);
    KBUF[0][256] = 'a'; KBUF[1][256] = 'b'; KBUF[2][65536] = 'a'; KBUF[3][65536] = 'b';
    names_huge[0] = (vf_name) { (const uint8_t *) "a", 1 }; names_huge[1] = (vf_name) { (const uint8_t *) "h", 1 };
    names_huge[2] = (vf_name) { HBUF, 32767 }; names_huge[3] = (vf_name) { HBUF, 32768 };
    names_huge[4] = (vf_name) { KBUF[0], 257 }; names_huge[5] = (vf_name) { KBUF[1], 257 };
    names_huge[6] = (vf_name) { KBUF[2], 65537 }; names_huge[7] = (vf_name) { KBUF[3], 65537 };
    names_huge[8] = (vf_name) { MBUF, 127 }; names_huge[9] = (vf_name) { (const uint8_t *) "z", 1 };
    for (int i = 1; i < NHUGE; i++)
        if (vf_name_cmp(names_huge[i - 1].p, names_huge[i - 1].len, names_huge[i].p, names_huge[i].len) >= 0) vf_die("boundary name alphabet is not ascending at %d", i);
    for (int i = 0; i < NTRAP; i++) QALL[i] = names_trap[i];
    for (int i = 0; i < NHUGE; i++) QALL[NTRAP + i] = names_huge[i];
    Q = QALL; NQ = NQALL;
    NOPS = 0;
    static const char base6[] = "nOAoar";
    for (int i = 0; i < 6; i++) OPS[NOPS++] = (op_t) base6[i];
    if (P_C11) { OPS[NOPS++] = 'w'; OPS[NOPS++] = 'R'; }      /* any preceding navigation history includes abandoning a traversal with reset */
    if (P_C06) { OPS[NOPS++] = 'R'; OPS[NOPS++] = 'V'; }
    if (P_C06) { for (int i = 0; i < NOPS; i++) OPS_LOOKUP[NOPS_LOOKUP++] = OPS[i]; for (int q = 0; q < NQ; q++) OPS_LOOKUP[NOPS_LOOKUP++] = (op_t) (0x80 | q); }
    if (P_C07) for (int v = 0; v < 4; v++) for (int q = 0; q < NQ; q++) OPS[NOPS++] = (op_t) (0x80 | (v << 5) | q);
    const char *e = getenv("VERIF_N");
    if (P_C07) N_TOK = vf_g.thorough ? 4 : 3; else N_TOK = vf_g.thorough ? 6 : 5;
    if (e) N_TOK = atoi(e);
    N_TOK_DEEP = (!P_C07 && vf_g.thorough && !e) ? 7 : 0;
    N_BIG = vf_g.thorough ? 3 : 2;
    N_LOOKUP = vf_g.thorough ? 4 : 3;
    if (vf_g.replay) replay_main();
    int deaths = vf_run_workers(worker);
    static char bound[2800], rule[600];
    snprintf(bound, sizeof bound,
             "all valid object- and array-rooted documents with <= %d value tokens over leaves {%s} and containers {object,array}%s, names %s; "
             "%smax_depth = needed and needed+1; per document: fixpoint over ALL protocol-following call sequences (any length) of %d operations",
             N_TOK, P_C07 ? "int" : "int,string,128-byte string", N_TOK_DEEP ? " and with <= 7 value tokens over {int,string,object,array}" : "", P_C07 ? "12 order-trap names (empty, NUL, prefixes, a pair differing only after an embedded NUL, a 128-byte name, 0x7f/0x80/0xff); plus all documents with one token less over 10 names whose lengths sit on the prefix-width and counter-width boundaries (1, 127, 257 x2, 32767, 32768, 65537 x2); 22 query names" : "a<b<c",
             P_C07 ? "" : "array towers of 2..255 levels, object towers of 10 and 14 levels, documents over {int, 32768-byte string / bytes, containers}, containers beyond offset 65536; "
                          "lookup-driven navigation (C06) on the trap-name and boundary-name families with field_with_length over 22 names; ", NOPS);
    snprintf(rule, sizeof rule,
             "grammar-directed exhaustive enumeration of documents; breadth-first search over (byte image of parser+state[], reference cursor state), "
             "deduplicated by exact comparison; each transition is one real API call checked against the reference cursor");
    static const char *const assumptions[] = {
        "the library is a deterministic function of (parser image, buffer bytes, arguments): equal images have equal futures (checked: every violation is replayed twice on a fresh object; C17 checks there are no globals)",
        "documents beyond the token bound behave like the enumerated ones only as far as the state space is the same; the bound is stated in coverage.bound",
        "observations the property leaves open (getter values after a false next, get_name inside arrays) are not compared"
    };
    static const int must06[] = { CT_DOCS, CT_NEXT_TRUE, CT_NEXT_FALSE, CT_ENTER, CT_LEAVE, CT_LEAVE_PENDING, CT_RAW };
    static const int must07[] = { CT_DOCS, CT_FIELD_HIT, CT_FIELD_MISS, CT_FIELD_MISS_THEN_NEXT, CT_ENSURE_WRONGTYPE };
    static const int must11[] = { CT_DOCS, CT_RAW, CT_TOWRITER, CT_RAW_NONCONTAINER };
    vf_evidence_spec es;
    memset(&es, 0, sizeof es);
    es.c_states = CT_STATES; es.c_transitions = CT_TRANS; es.c_validated = CT_TRANS;
    snprintf(bound + strlen(bound), sizeof bound - strlen(bound), "%s",
             "; later additions: every pair (thorough: and triple) of small sibling subtrees with inner names \"\" and \"a\" and the pairs one level further down, also under lookups; rich "
             "towers (an object with an array field and a scalar at every level of 2..254 nested arrays); C11: reset in the histories and an in-place to_writer into a writer placed "
             "inside the parser's own buffer at every extraction");
    es.bound = bound; es.rule = rule;
    es.assumptions = assumptions; es.nassumptions = 3;
    if (P_C06) { es.must_be_nonzero = must06; es.n_must = 7; }
    if (P_C07) { es.must_be_nonzero = must07; es.n_must = 5; }
    if (P_C11) { es.must_be_nonzero = must11; es.n_must = 4; }
    return vf_finish(&es, deaths);
}
