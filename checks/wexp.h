/* wexp.h - exhaustive exploration of the WRITER: every sequence of <= K write
 * operations over an explicit operation alphabet x EVERY capacity from 0 to
 * (encoded size + 1), on an exactly-sized heap destination, in lock step with
 * the reference encoder (which also yields the list of "pieces" the contract
 * speaks about). Used by writer.c (C04, C05) and by api.c (writer parts of C09,
 * C12, C16). The including file provides the counters named below. */
#ifndef WEXP_H
#define WEXP_H
#include "../lib/vf_util.h"
#include "../lib/vf_ref.h"
#include "../lib/vf_run.h"
#include "binson_light.h"

/* counters the includer must define: CT_W_SEQS, CT_W_RUNS, CT_W_CALLS, CT_W_OVERFLOW_RUNS, CT_W_FIT_RUNS,
 * CT_W_FALSE_CALLS, CT_W_ERR_RANGE, CT_W_ERR_FORMAT, CT_W_ERR_NULL, CT_W_REINIT_CHECKS, CT_W_STATES */

enum {
    WO_OBJ_BEGIN, WO_OBJ_END, WO_ARR_BEGIN, WO_ARR_END, WO_TRUE, WO_FALSE,
    WO_INT_1, WO_INT_M128, WO_INT_128, WO_INT_M32769, WO_INT_2P31, WO_INT_MIN,
    WO_DOUBLE, WO_STR_0, WO_STR_1, WO_STR_127, WO_STR_128, WO_STR_300, WO_STRZ_AB, WO_NAME_A,
    WO_BYT_0, WO_BYT_1, WO_BYT_128, WO_RAW_0, WO_RAW_2, WO_P2W,
    /* write_raw whose SOURCE lies inside the writer's own buffer and overlaps the destination (bytes re-emitted from the output so far /
     * a payload staged just ahead of the cursor): the stored bytes must be the source as it was before the call */
    WO_RAW_BACK, WO_RAW_AHEAD, WO_RAW_INPLACE,
    /* parser_to_writer with a healthy parser that is NOT on a container (on an integer): returns false and changes nothing, neither
     * the counter nor the error indicator, whatever state the writer is in */
    WO_P2W_REFUSED,
    /* payloads that need the 4-byte length prefix; only used by the "big" pass (capacities around every piece boundary) */
    WO_STR_40000, WO_BYT_32768,
    /* parametric operations of the "value" pass: the argument comes from wexp_vint / wexp_vdbl / wexp_vlen */
    WO_INT_V, WO_DBL_V, WO_STR_L, WO_BYT_L, WO_STRZ_L, WO_RAW_L,
    /* operations that have no encoding: only "error set, nothing stored" is demanded */
    WO_STR_HUGE, WO_BYT_HUGE, WO_STRZ_NULL, WO_RAW_NULL, WO_RAW_HUGE, WO_RAW_WRAP,
    WO_NOPS
};
#define WO_FIRST_NOENC WO_STR_HUGE
#define WO_FIRST_BIG WO_STR_40000
static const char *const wo_name[WO_NOPS] = {
    "object_begin", "object_end", "array_begin", "array_end", "true", "false", "int(1)", "int(-128)", "int(128)", "int(-32769)", "int(2^31)",
    "int(INT64_MIN)", "double(-1.5)", "string_with_len(0)", "string_with_len(1)", "string_with_len(127)", "string_with_len(128)",
    "string_with_len(300)", "write_string(\"ab\")", "write_name(\"a\")", "bytes(0)", "bytes(1)", "bytes(128)", "write_raw(0)", "write_raw(2)",
    "parser_to_writer([1])", "write_raw(4 bytes starting 2 below the cursor)", "write_raw(4 bytes staged 1 above the cursor)", "write_raw(the 4 bytes AT the cursor: source == destination)", "parser_to_writer(parser on an integer)", "string_with_len(40000)", "bytes(32768)", "integer(V)", "double(V)", "string_with_len(L)", "bytes(L)", "write_string(L chars)", "write_raw(L)",
    "string_with_len(INT32_MAX+1)", "bytes(SIZE_MAX)", "write_string(NULL)", "write_raw(NULL)", "write_raw(len=SIZE_MAX)", "write_raw(len=SIZE_MAX-1: counter+len wraps)"
};

static uint8_t wexp_payload[200100];       /* patterned source bytes */
static char wexp_zpayload[200100];         /* NUL-free text for write_string */
static uint8_t wexp_alias_bytes[4];       /* what the aliasing operation must emit */
#define WEXP_SLACK 8
static uint8_t *wexp_alias_dst; static size_t wexp_alias_cap, wexp_alias_used; static bool wexp_alias_ok, wexp_alias_ok_any;   /* set by wexp_run before the real call */
static int64_t wexp_vint; static uint64_t wexp_vdbl; static size_t wexp_vlen;     /* arguments of the parametric operations */
static uint8_t wexp_p2w_doc[] = { 0x42, 0x42, 0x10, 0x01, 0x43, 0x43 };     /* [[1]] : the inner [1] is what parser_to_writer copies */

static void wexp_fill_payload(void)
{
    for (size_t i = 0; i < sizeof wexp_payload; i++) wexp_payload[i] = (uint8_t) (0x30 + i * 7 + (i >> 8));
    for (size_t i = 0; i < sizeof wexp_zpayload; i++) wexp_zpayload[i] = (char) ('A' + i % 57);
}

typedef struct { size_t off, len; } wpiece;

/* reference encoding of one op appended to ref; pieces = the units that must fit as a whole */
static int wexp_ref_op(int op, vf_doc *ref, wpiece *pc)
{
    size_t a = ref->len;
    int np = 0;
#define ONE() do { pc[np].off = a; pc[np].len = ref->len - a; np++; } while (0)
    switch (op) {
    case WO_OBJ_BEGIN: vf_put1(ref, 0x40); ONE(); break;
    case WO_OBJ_END: vf_put1(ref, 0x41); ONE(); break;
    case WO_ARR_BEGIN: vf_put1(ref, 0x42); ONE(); break;
    case WO_ARR_END: vf_put1(ref, 0x43); ONE(); break;
    case WO_TRUE: vf_put1(ref, 0x44); ONE(); break;
    case WO_FALSE: vf_put1(ref, 0x45); ONE(); break;
    case WO_INT_1: vf_put_int(ref, 0x10, 1); ONE(); break;
    case WO_INT_M128: vf_put_int(ref, 0x10, -128); ONE(); break;
    case WO_INT_128: vf_put_int(ref, 0x10, 128); ONE(); break;
    case WO_INT_M32769: vf_put_int(ref, 0x10, -32769); ONE(); break;
    case WO_INT_2P31: vf_put_int(ref, 0x10, 2147483648LL); ONE(); break;
    case WO_INT_MIN: vf_put_int(ref, 0x10, INT64_MIN); ONE(); break;
    case WO_DOUBLE: { double v = -1.5; uint64_t u; memcpy(&u, &v, 8); vf_put1(ref, 0x46); for (int i = 0; i < 8; i++) vf_put1(ref, (uint8_t) (u >> (8 * i))); ONE(); break; }
    case WO_STR_0: case WO_STR_1: case WO_STR_127: case WO_STR_128: case WO_STR_300: case WO_STRZ_AB: case WO_NAME_A:
    case WO_BYT_0: case WO_BYT_1: case WO_BYT_128: case WO_STR_40000: case WO_BYT_32768: {
        size_t l = op == WO_STR_40000 ? 40000 : op == WO_BYT_32768 ? 32768 : op == WO_STR_0 || op == WO_BYT_0 ? 0 : op == WO_STR_1 || op == WO_BYT_1 || op == WO_NAME_A ? 1 : op == WO_STR_127 ? 127 :
                   op == WO_STR_128 || op == WO_BYT_128 ? 128 : op == WO_STR_300 ? 300 : 2;
        const uint8_t *src = op == WO_STRZ_AB ? (const uint8_t *) "ab" : op == WO_NAME_A ? (const uint8_t *) "a" : wexp_payload;
        vf_put_int(ref, ((op >= WO_BYT_0 && op <= WO_BYT_128) || op == WO_BYT_32768) ? 0x18 : 0x14, (int64_t) l);
        ONE();                      /* descriptor */
        if (l) { a = ref->len; vf_put(ref, src, l); ONE(); }   /* payload */
        break;
    }
    case WO_INT_V: vf_put_int(ref, 0x10, wexp_vint); ONE(); break;
    case WO_DBL_V: vf_put1(ref, 0x46); for (int i = 0; i < 8; i++) vf_put1(ref, (uint8_t) (wexp_vdbl >> (8 * i))); ONE(); break;
    case WO_STR_L: case WO_BYT_L: case WO_STRZ_L:
        vf_put_int(ref, op == WO_BYT_L ? 0x18 : 0x14, (int64_t) wexp_vlen);
        ONE();
        if (wexp_vlen) { a = ref->len; vf_put(ref, op == WO_STRZ_L ? (const uint8_t *) wexp_zpayload : wexp_payload, wexp_vlen); ONE(); }
        break;
    case WO_RAW_L: vf_put(ref, wexp_payload, wexp_vlen); ONE(); break;
    case WO_RAW_BACK:
        for (int i = 0; i < 4; i++) wexp_alias_bytes[i] = (i < 2 && a >= 2) ? ref->bytes[a - 2 + (size_t) i] : 0xA5;
        vf_put(ref, wexp_alias_bytes, 4); ONE(); break;
    case WO_RAW_AHEAD: memcpy(wexp_alias_bytes, "WXYZ", 4); vf_put(ref, wexp_alias_bytes, 4); ONE(); break;
    case WO_RAW_INPLACE: memset(wexp_alias_bytes, 0xA5, 4); vf_put(ref, wexp_alias_bytes, 4); ONE(); break;     /* what lies at the cursor: untouched fill */
    case WO_P2W_REFUSED: break;     /* nothing is emitted */
    case WO_RAW_0: ONE(); break;    /* a zero-length piece */
    case WO_RAW_2: vf_put(ref, "\x44\x45", 2); ONE(); break;
    case WO_P2W: vf_put(ref, wexp_p2w_doc + 1, 4); ONE(); break;
    default: break;
    }
#undef ONE
    return np;
}

/* performs op on the real writer */
static bool wexp_real_op(int op, binson_writer *w)
{
    switch (op) {
    case WO_OBJ_BEGIN: return binson_write_object_begin(w);
    case WO_OBJ_END: return binson_write_object_end(w);
    case WO_ARR_BEGIN: return binson_write_array_begin(w);
    case WO_ARR_END: return binson_write_array_end(w);
    case WO_TRUE: return binson_write_boolean(w, true);
    case WO_FALSE: return binson_write_boolean(w, false);
    case WO_INT_1: return binson_write_integer(w, 1);
    case WO_INT_M128: return binson_write_integer(w, -128);
    case WO_INT_128: return binson_write_integer(w, 128);
    case WO_INT_M32769: return binson_write_integer(w, -32769);
    case WO_INT_2P31: return binson_write_integer(w, 2147483648LL);
    case WO_INT_MIN: return binson_write_integer(w, INT64_MIN);
    case WO_DOUBLE: return binson_write_double(w, -1.5);
    case WO_STR_0: return binson_write_string_with_len(w, (const char *) wexp_payload, 0);
    case WO_STR_1: return binson_write_string_with_len(w, (const char *) wexp_payload, 1);
    case WO_STR_127: return binson_write_string_with_len(w, (const char *) wexp_payload, 127);
    case WO_STR_128: return binson_write_string_with_len(w, (const char *) wexp_payload, 128);
    case WO_STR_300: return binson_write_string_with_len(w, (const char *) wexp_payload, 300);
    case WO_STRZ_AB: return binson_write_string(w, "ab");
    case WO_NAME_A: return binson_write_name(w, "a");
    case WO_BYT_0: return binson_write_bytes(w, wexp_payload, 0);
    case WO_BYT_1: return binson_write_bytes(w, wexp_payload, 1);
    case WO_BYT_128: return binson_write_bytes(w, wexp_payload, 128);
    case WO_STR_40000: return binson_write_string_with_len(w, (const char *) wexp_payload, 40000);
    case WO_BYT_32768: return binson_write_bytes(w, wexp_payload, 32768);
    case WO_INT_V: return binson_write_integer(w, wexp_vint);
    case WO_DBL_V: { double d; memcpy(&d, &wexp_vdbl, 8); return binson_write_double(w, d); }
    case WO_STR_L: return binson_write_string_with_len(w, (const char *) wexp_payload, wexp_vlen);
    case WO_BYT_L: return binson_write_bytes(w, wexp_payload, wexp_vlen);
    case WO_STRZ_L: { wexp_zpayload[wexp_vlen] = 0; bool r = binson_write_string(w, wexp_zpayload); wexp_zpayload[wexp_vlen] = 'z'; return r; }
    case WO_RAW_L: return binson_write_raw(w, wexp_payload, wexp_vlen);
    case WO_RAW_BACK: {
        /* aliasing is possible when nothing failed so far, two bytes precede the cursor and the four source bytes lie inside the destination */
        uint8_t priv[4];
        memcpy(priv, wexp_alias_bytes, 4);
        bool alias = wexp_alias_ok && wexp_alias_used >= 2 && wexp_alias_used + 2 <= wexp_alias_cap;
        return binson_write_raw(w, alias ? wexp_alias_dst + wexp_alias_used - 2 : priv, 4);
    }
    case WO_RAW_INPLACE: {
        /* the caller built 4 bytes exactly where they belong (in its own memory, which extends WEXP_SLACK bytes beyond the capacity it
         * granted the writer) and asks the writer to account for them: same rules as any other write */
        uint8_t priv[4];
        memcpy(priv, wexp_alias_bytes, 4);
        bool alias = wexp_alias_ok_any && wexp_alias_used + 4 <= wexp_alias_cap + WEXP_SLACK;
        return binson_write_raw(w, alias ? wexp_alias_dst + wexp_alias_used : priv, 4);
    }
    case WO_RAW_AHEAD: {
        uint8_t priv[4];
        memcpy(priv, wexp_alias_bytes, 4);
        bool alias = wexp_alias_ok && wexp_alias_used + 5 <= wexp_alias_cap;
        if (!alias) return binson_write_raw(w, priv, 4);
        uint8_t *stage = wexp_alias_dst + wexp_alias_used + 1;
        memcpy(stage, priv, 4);                         /* the caller stages its payload in its own buffer, one byte ahead of the cursor */
        bool r = binson_write_raw(w, stage, 4);
        if (stage[3] == priv[3]) stage[3] = 0xA5;       /* the one staged byte the write does not cover: back to the fill pattern (if it changed, the content oracle reports it) */
        return r;
    }
    case WO_P2W_REFUSED: {
        binson_state st[3];
        binson_parser p;
        memset(&p, 0, sizeof p);
        p.state = st; p.max_depth = 3;
        if (!binson_parser_init_array(&p, wexp_p2w_doc, sizeof wexp_p2w_doc) || !binson_parser_go_into_array(&p) || !binson_parser_next(&p) || !binson_parser_go_into_array(&p) || !binson_parser_next(&p) ||
            binson_parser_get_type(&p) != BINSON_TYPE_INTEGER)
            vf_die("wexp: cannot position the helper parser on the integer");
        return binson_parser_to_writer(&p, w);
    }
    case WO_RAW_0: return binson_write_raw(w, wexp_payload, 0);
    case WO_RAW_2: return binson_write_raw(w, (const uint8_t *) "\x44\x45", 2);
    case WO_P2W: {
        binson_state st[3];
        binson_parser p;
        memset(&p, 0, sizeof p);
        p.state = st; p.max_depth = 3;
        if (!binson_parser_init_array(&p, wexp_p2w_doc, sizeof wexp_p2w_doc) || !binson_parser_go_into_array(&p) || !binson_parser_next(&p))
            vf_die("wexp: cannot position the helper parser");
        return binson_parser_to_writer(&p, w);
    }
    case WO_STR_HUGE: return binson_write_string_with_len(w, (const char *) wexp_payload, (size_t) INT32_MAX + 1);
    case WO_BYT_HUGE: return binson_write_bytes(w, wexp_payload, SIZE_MAX);
    case WO_STRZ_NULL: return binson_write_string(w, NULL);
    case WO_RAW_NULL: return binson_write_raw(w, NULL, 4);
    case WO_RAW_HUGE: return binson_write_raw(w, wexp_payload, SIZE_MAX);
    case WO_RAW_WRAP: return binson_write_raw(w, wexp_payload, SIZE_MAX - 1);
    default: vf_die("wexp: bad op");
    }
}

typedef struct {
    bool c04, c05, c09, c12, c16;       /* which property's oracles report */
    int  K;                             /* sequence length bound */
    const int *alpha; int nalpha;       /* operation alphabet */
    bool with_noenc;                    /* append each no-encoding op at every position (C09 classes FORMAT / NULL) */
} wexp_cfg;

typedef struct { char why[240]; char sig[120]; } wexp_mm;

static int wexp_seq[16], wexp_nseq, wexp_cap_cur, wexp_opi_cur;
static void wexp_describe(vf_str *o)
{
    vf_str_printf(o, "kind: writer\ncapacity: %d\nops:", wexp_cap_cur);
    for (int i = 0; i < wexp_nseq; i++) vf_str_printf(o, " %d", wexp_seq[i]);
    vf_str_printf(o, "\nops_readable:");
    for (int i = 0; i < wexp_nseq; i++) vf_str_printf(o, " %s", wo_name[wexp_seq[i]]);
    vf_str_printf(o, "\nfailing_call_index: %d\nvint: %lld\nvdbl: %llu\nvlen: %zu\n", wexp_opi_cur, (long long) wexp_vint, (unsigned long long) wexp_vdbl, wexp_vlen);
}

/* One run: the op sequence on a destination of exactly `cap` bytes. Returns
 * false and fills mm on the first oracle failure. */
static bool wexp_run(const wexp_cfg *cf, const int *seq, int n, size_t cap, wexp_mm *mm, bool counting)
{
    static vf_doc ref;
    wpiece pc[4];
    ref.len = 0;
    /* the destination block is WEXP_SLACK bytes longer than the capacity granted to the writer: the slack is the caller's own memory
     * (it must stay untouched; checked after every call), ASan guards what lies beyond it */
    uint8_t *dst = (uint8_t *) malloc(cap + WEXP_SLACK);
    if (!dst) vf_die("oom");
    uint8_t *dptr = dst;
    memset(dst, 0xA5, cap + WEXP_SLACK);
    binson_writer w;
    memset(&w, 0x77, sizeof w);             /* a writer object holding arbitrary bytes */
    bool ok = true;
    memcpy(wexp_seq, seq, sizeof(int) * (size_t) n); wexp_nseq = n; wexp_cap_cur = (int) cap;
    wexp_opi_cur = -1;
    if (!binson_writer_init(&w, dptr, cap)) { snprintf(mm->why, sizeof mm->why, "writer_init returned false"); snprintf(mm->sig, sizeof mm->sig, "init"); ok = false; }
    if (ok && (w.buffer_used != 0 || w.error_flags != BINSON_ERROR_NONE)) {
        snprintf(mm->why, sizeof mm->why, "after init counter=%zu error=%d", w.buffer_used, (int) w.error_flags);
        snprintf(mm->sig, sizeof mm->sig, "init-not-clean");
        ok = false;
    }
    bool failed = false;            /* a call has returned false / an error is expected to be latched */
    size_t stored = 0;              /* reference: bytes that must be in the destination */
    bool ref_overflow = false;
    size_t first_fail_end = 0;
    size_t expect_counter = 0;
    bool counter_defined = true;    /* false once an op without encoding was issued */
    uint8_t *shadow = (uint8_t *) vf_xmalloc(cap ? cap : 1);
    for (int i = 0; ok && i < n; i++) {
        int op = seq[i];
        wexp_opi_cur = i;
        bool noenc = op >= WO_FIRST_NOENC;
        int np = noenc ? 0 : wexp_ref_op(op, &ref, pc);
        /* reference: which pieces are stored */
        bool exp_ret;
        if (!noenc) {
            for (int k = 0; k < np; k++) {
                if (!ref_overflow && !failed && pc[k].off + pc[k].len <= cap) stored = pc[k].off + pc[k].len;
                else if (pc[k].off + pc[k].len > cap) { if (!ref_overflow && !failed) first_fail_end = pc[k].off + pc[k].len; ref_overflow = true; }
                if (ref_overflow) failed = true;
            }
            expect_counter = ref.len;
            exp_ret = !failed && op != WO_P2W_REFUSED;
        } else {
            failed = true;
            exp_ret = false;
            counter_defined = false;
        }
        memcpy(shadow, dptr, cap);
        binson_err e0 = w.error_flags;
        vf_progress++;
        wexp_alias_ok_any = e0 == BINSON_ERROR_NONE && counter_defined && (noenc ? ref.len : (np ? pc[0].off : ref.len)) <= cap;   /* no failure BEFORE this call: the fill at the cursor is intact */
        wexp_alias_dst = dptr; wexp_alias_cap = cap; wexp_alias_used = ref.len - (noenc ? 0 : (np ? ref.len - pc[0].off : 0)); wexp_alias_ok = !failed && counter_defined;
        vf_stack_paint();
        bool r = wexp_real_op(op, &w);
        wexp_alias_ok = false; wexp_alias_ok_any = false;
        for (int k = 0; k < WEXP_SLACK; k++) if (dptr[cap + (size_t) k] != 0xA5) {
            snprintf(mm->why, sizeof mm->why, "call %d (%s) stored a byte at offset %zu, beyond the capacity %zu", i, wo_name[op], cap + (size_t) k, cap);
            snprintf(mm->sig, sizeof mm->sig, "beyond-capacity");
            ok = false; break;
        }
        if (!ok) break;
        if (counting) {
            vf_count(CT_W_CALLS, 1);
            if (!r) vf_count(CT_W_FALSE_CALLS, 1);
        }
        /* --- oracles */
        if (r != exp_ret && (cf->c04 || cf->c09)) {
            snprintf(mm->why, sizeof mm->why, "call %d (%s) returned %s, expected %s (capacity %zu, reference size so far %zu)", i, wo_name[op],
                     r ? "true" : "false", exp_ret ? "true" : "false", cap, ref.len);
            snprintf(mm->sig, sizeof mm->sig, "ret:%s", e0 != BINSON_ERROR_NONE ? "after-failure" : "first-failure");
            ok = false; break;
        }
        if (counter_defined && binson_writer_get_counter(&w) != expect_counter && (cf->c04 || cf->c09)) {
            snprintf(mm->why, sizeof mm->why, "counter %zu after call %d (%s), exact encoded size is %zu (capacity %zu)", binson_writer_get_counter(&w), i,
                     wo_name[op], expect_counter, cap);
            snprintf(mm->sig, sizeof mm->sig, "counter:%s", e0 != BINSON_ERROR_NONE ? "after-failure" : "no-prior-failure");
            ok = false; break;
        }
        if (e0 != BINSON_ERROR_NONE) {
            /* C09: latched */
            if (cf->c09 && (r || w.error_flags == BINSON_ERROR_NONE || memcmp(shadow, dptr, cap))) {
                snprintf(mm->why, sizeof mm->why, "after a failed write, call %d (%s): ret=%d error=%d destination %s", i, wo_name[op], r, (int) w.error_flags,
                         memcmp(shadow, dptr, cap) ? "MODIFIED" : "unchanged");
                snprintf(mm->sig, sizeof mm->sig, "latch");
                ok = false; break;
            }
        }
        if (op == WO_P2W_REFUSED && (w.error_flags != e0 || memcmp(shadow, dptr, cap))) {
            snprintf(mm->why, sizeof mm->why, "call %d (%s) must change nothing: error %d -> %d, destination %s", i, wo_name[op], (int) e0, (int) w.error_flags,
                     memcmp(shadow, dptr, cap) ? "MODIFIED" : "unchanged");
            snprintf(mm->sig, sizeof mm->sig, "refused-to_writer-changed-writer");
            ok = false; break;
        }
        if (noenc && (cf->c09 || cf->c04)) {
            if (w.error_flags == BINSON_ERROR_NONE || memcmp(shadow, dptr, cap)) {
                snprintf(mm->why, sizeof mm->why, "call %d (%s) has no encoding: error=%d destination %s", i, wo_name[op], (int) w.error_flags,
                         memcmp(shadow, dptr, cap) ? "MODIFIED" : "unchanged");
                snprintf(mm->sig, sizeof mm->sig, "noenc");
                ok = false; break;
            }
        }
        if (counting && w.error_flags != e0) {
            if (w.error_flags == BINSON_ERROR_RANGE) vf_count(CT_W_ERR_RANGE, 1);
            if (w.error_flags == BINSON_ERROR_FORMAT) vf_count(CT_W_ERR_FORMAT, 1);
            if (w.error_flags == BINSON_ERROR_NULL) vf_count(CT_W_ERR_NULL, 1);
        }
        if (cf->c04 && !noenc && counter_defined) {
            /* destination = the encoding up to the first piece that did not fit, 0xA5 beyond */
            /* the destination must be: reference bytes [0,k) then untouched 0xA5, for a k between "everything before the
             * first piece that did not fit" (our piece list is the coarsest legal one) and the end of that piece exclusive:
             * a writer that stores a token in finer pieces may legitimately have stored the head of the failing token */
            size_t match = 0, limit = ref.len < cap ? ref.len : cap;
            while (match < limit && dptr[match] == ref.bytes[match]) match++;
            size_t tail = cap;          /* smallest j with dptr[j..cap) all 0xA5 */
            while (tail > 0 && dptr[tail - 1] == 0xA5) tail--;
            size_t fail_end = ref.len;  /* end of the first piece that did not fit, if any */
            if (ref_overflow) { fail_end = first_fail_end; }
            bool same = stored <= cap && match >= stored && tail <= match && (tail <= stored || tail < fail_end);
            if (!same) {
                snprintf(mm->why, sizeof mm->why, "destination after call %d (%s) is not 'reference prefix of %zu bytes then untouched' (capacity %zu)", i, wo_name[op],
                         stored, cap);
                snprintf(mm->sig, sizeof mm->sig, "content");
                ok = false; break;
            }
        }
    }
    if (ok && counter_defined && (cf->c04 || cf->c09)) {
        bool over = ref.len > cap;
        if (over != (w.error_flags == BINSON_ERROR_RANGE) || (!over && w.error_flags != BINSON_ERROR_NONE)) {
            snprintf(mm->why, sizeof mm->why, "final error=%d but encoded size %zu vs capacity %zu", (int) w.error_flags, ref.len, cap);
            snprintf(mm->sig, sizeof mm->sig, "final-error");
            ok = false;
        }
        if (counting) vf_count(over ? CT_W_OVERFLOW_RUNS : CT_W_FIT_RUNS, 1);
    }
    /* C12 (writer): reset / init give a clean start whatever happened before */
    if (ok && cf->c12) {
        binson_writer w2 = w;
        bool rr = binson_writer_reset(&w2);
        bool want = cap >= 2;
        if (counting) vf_count(CT_W_REINIT_CHECKS, 2);
        if (rr != want || (rr && (w2.buffer_used != 0 || w2.error_flags != BINSON_ERROR_NONE || w2.buffer != dptr || w2.buffer_size != cap))) {
            snprintf(mm->why, sizeof mm->why, "reset after the sequence: ret=%d counter=%zu error=%d (capacity %zu)", rr, w2.buffer_used, (int) w2.error_flags, cap);
            snprintf(mm->sig, sizeof mm->sig, "reset-not-clean");
            ok = false;
        }
        if (ok && rr) {
            /* behaves like a fresh one: the same sequence again gives the same results */
            memset(dptr, 0xA5, cap);
            binson_writer w3;
            uint8_t *d3 = (uint8_t *) vf_xmalloc(cap ? cap : 1);
            memset(d3, 0xA5, cap ? cap : 1);
            memset(&w3, 0, sizeof w3);
            binson_writer_init(&w3, cap ? d3 : d3 + 1, cap);
            for (int i = 0; i < n; i++) {
                bool a = wexp_real_op(seq[i], &w2), b = wexp_real_op(seq[i], &w3);
                if (a != b || w2.buffer_used != w3.buffer_used || w2.error_flags != w3.error_flags) {
                    snprintf(mm->why, sizeof mm->why, "reused writer diverges from a fresh one at call %d (%s)", i, wo_name[seq[i]]);
                    snprintf(mm->sig, sizeof mm->sig, "reuse-diverges");
                    ok = false; break;
                }
            }
            if (ok && memcmp(dptr, cap ? d3 : d3 + 1, cap)) { snprintf(mm->why, sizeof mm->why, "reused writer produced different bytes"); snprintf(mm->sig, sizeof mm->sig, "reuse-bytes"); ok = false; }
            free(d3);
        }
        if (ok) {
            binson_writer w4 = w;
            bool ri = binson_writer_init(&w4, dptr, cap);
            if (!ri || w4.buffer_used != 0 || w4.error_flags != BINSON_ERROR_NONE || w4.buffer != dptr || w4.buffer_size != cap) {
                snprintf(mm->why, sizeof mm->why, "init on a used writer: ret=%d counter=%zu error=%d", ri, w4.buffer_used, (int) w4.error_flags);
                snprintf(mm->sig, sizeof mm->sig, "init-not-clean");
                ok = false;
            }
        }
    }
    free(shadow);
    free(dst);
    return ok;
}

static void wexp_report(const char *prefix, const wexp_mm *mm)
{
    char sig[200];
    snprintf(sig, sizeof sig, "%s:%s", prefix, mm->sig);
    vf_str b = { 0 };
    wexp_describe(&b);
    vf_str_printf(&b, "mismatch: %s\n", mm->why);
    vf_violation(sig, b.s);
    vf_str_free(&b);
}

/* size of the reference encoding of a sequence (ops with an encoding only) */
static size_t wexp_ref_size(const int *seq, int n)
{
    static vf_doc ref;
    wpiece pc[4];
    ref.len = 0;
    for (int i = 0; i < n; i++) if (seq[i] < WO_FIRST_NOENC) wexp_ref_op(seq[i], &ref, pc);
    return ref.len;
}

/* The sequence on a writer that was told a capacity far beyond what the sequence needs (SIZE_MAX as "unbounded", values with bit 63 or
 * only bit 32 set) while the destination block has exactly the encoded size: every call succeeds, the bytes are the encoding. */
static bool wexp_run_huge(const int *seq, int n, size_t claim, wexp_mm *mm)
{
    static vf_doc ref;
    wpiece pc[4];
    ref.len = 0;
    for (int i = 0; i < n; i++) wexp_ref_op(seq[i], &ref, pc);
    size_t size = ref.len;
    uint8_t *dst = (uint8_t *) vf_xmalloc(size ? size : 1);
    uint8_t *dptr = size ? dst : dst + 1;
    memset(dst, 0xA5, size ? size : 1);
    binson_writer w;
    memset(&w, 0x77, sizeof w);
    bool ok = binson_writer_init(&w, dptr, claim);
    if (!ok) { snprintf(mm->why, sizeof mm->why, "writer_init with capacity %zx returned false", claim); snprintf(mm->sig, sizeof mm->sig, "huge-capacity:init"); }
    ref.len = 0;
    memcpy(wexp_seq, seq, sizeof(int) * (size_t) n); wexp_nseq = n; wexp_cap_cur = -1;
    for (int i = 0; ok && i < n; i++) {
        wexp_opi_cur = i;
        wexp_ref_op(seq[i], &ref, pc);
        wexp_alias_ok = false;
        vf_progress++;
        vf_stack_paint();
        bool r = wexp_real_op(seq[i], &w);
        bool want = seq[i] != WO_P2W_REFUSED;
        if (r != want || w.error_flags != BINSON_ERROR_NONE || binson_writer_get_counter(&w) != ref.len) {
            snprintf(mm->why, sizeof mm->why, "capacity %zx (destination of exactly the encoded size %zu): call %d (%s) returned %d, error %d, counter %zu (expected %zu)", claim, size, i,
                     wo_name[seq[i]], r, (int) w.error_flags, binson_writer_get_counter(&w), ref.len);
            snprintf(mm->sig, sizeof mm->sig, "huge-capacity");
            ok = false;
        }
    }
    if (ok && size && memcmp(dptr, ref.bytes, size)) { snprintf(mm->why, sizeof mm->why, "capacity %zx: the stored bytes are not the encoding", claim); snprintf(mm->sig, sizeof mm->sig, "huge-capacity:bytes"); ok = false; }
    free(dst);
    return ok;
}

/* one sequence at every capacity up to size+1 (see below for encodings longer than 2000 bytes); returns the encoded size */
static size_t wexp_one_seq(const wexp_cfg *cf, const int *seq, int m, const char *sigprefix)
{
    vf_count(CT_W_SEQS, 1);
    size_t size = wexp_ref_size(seq, m);
    wexp_mm mm;
    /* every capacity up to size+1, and at least 0..3 (reset refuses capacities below 2); for encodings longer
     * than 2000 bytes: every capacity within 3 of a piece boundary (all interior capacities of one payload
     * piece are alike: the piece is stored by a single bounded copy or not at all) */
    size_t bnd[40]; int nb = 0;
    if (size > 2000) {
        static vf_doc rr; wpiece pcs[4];
        rr.len = 0; bnd[nb++] = 0;
        for (int i = 0; i < m; i++) if (seq[i] < WO_FIRST_NOENC) { int np = wexp_ref_op(seq[i], &rr, pcs); for (int k = 0; k < np && nb < 40; k++) bnd[nb++] = pcs[k].off + pcs[k].len; }
    }
    for (size_t cap = 0; cap <= (size + 1 > 3 ? size + 1 : 3); cap++) {
        if (nb) {
            bool near = false;
            for (int k = 0; k < nb; k++) if (cap + 3 >= bnd[k] && cap <= bnd[k] + 3) near = true;
            if (!near) { size_t nxt = size + 2; for (int k = 0; k < nb; k++) if (bnd[k] > cap + 3 && bnd[k] - 3 < nxt) nxt = bnd[k] - 3; cap = nxt - 1; continue; }
        }
        vf_count(CT_W_RUNS, 1);
        vf_count(CT_W_STATES, (uint64_t) m + 1);
        if (!wexp_run(cf, seq, m, cap, &mm, true)) {
            /* determinism guard */
            wexp_mm m2, m3;
            m2.why[0] = m3.why[0] = 0;
            bool ok2 = wexp_run(cf, seq, m, cap, &m2, false), ok3 = wexp_run(cf, seq, m, cap, &m3, false);
            if (ok2 || ok3) {
                /* not reproduced at once: a failure that comes and goes with identical inputs (every buffer and object here is filled with
                 * fixed bytes before use) means the library's result depends on uninitialised memory - if it shows again within 6 more
                 * runs it is reported as such, otherwise the harness gives up with an error */
                int again = 0;
                for (int t = 0; t < 6; t++) if (!wexp_run(cf, seq, m, cap, &m2, false)) again++;
                if (!again) vf_die("writer violation did not reproduce: %s", mm.why);
                snprintf(m3.why, sizeof m3.why, "%s", "(passes on some runs)");
            }
            if (ok2 || ok3 || strcmp(m2.why, mm.why) || strcmp(m3.why, mm.why)) {
                /* the run fails every time but not in the same way: the library's output depends on something other than its inputs
                 * (uninitialised memory); reported under one stable description */
                char first[160];
                snprintf(first, sizeof first, "%.150s", mm.why);
                snprintf(mm.why, sizeof mm.why, "with identical inputs the sequence fails an oracle on some runs or in different ways from run to run (first: %s)", first);
                snprintf(mm.sig, sizeof mm.sig, "unstable-failure");
            }
            wexp_run(cf, seq, m, cap, &m2, false);  /* leaves wexp_* context set */
            wexp_report(sigprefix, &mm);
            break;
        }
    }
    /* capacities beyond any real buffer (only for sequences whose every call has an encoding) */
    bool enc = true;
    for (int i = 0; i < m; i++) if (seq[i] >= WO_FIRST_NOENC) enc = false;
    if (enc && (cf->c04 || cf->c09) && sizeof(size_t) == 8) {
        static const size_t claims[] = { SIZE_MAX, ((size_t) 1 << 63) | 4096, (size_t) 1 << 32 };
        for (int c = 0; c < 3; c++) {
            vf_count(CT_W_RUNS, 1);
            if (!wexp_run_huge(seq, m, claims[c], &mm)) {
                wexp_mm m2;
                if (wexp_run_huge(seq, m, claims[c], &m2) || strcmp(m2.why, mm.why)) {
                    int again = 0;
                    for (int t = 0; t < 6; t++) if (!wexp_run_huge(seq, m, claims[c], &m2)) again++;
                    if (!again) vf_die("writer violation did not reproduce: %s", mm.why);
                    char first[160];
                    snprintf(first, sizeof first, "%.150s", mm.why);
                    snprintf(mm.why, sizeof mm.why, "with identical inputs the sequence fails an oracle on some runs or in different ways from run to run (first: %s)", first);
                    snprintf(mm.sig, sizeof mm.sig, "unstable-failure");
                }
                wexp_report(sigprefix, &mm);
                break;
            }
        }
    }
    return size;
}

/* all sequences of length <= K over the alphabet, partitioned over workers by
 * sequence index; for each: every capacity 0..size+1, plus (C04) the re-run at
 * capacity = reported counter. */
static uint64_t wexp_index_base;
static void wexp_explore(const wexp_cfg *cf, int w, int W, uint64_t start, const char *sigprefix)
{
    wexp_fill_payload();
    int seq[16];
    uint64_t index = 0;
    for (int n = 0; n <= cf->K; n++) {
        int idx[16] = { 0 };
        for (;;) {
            uint64_t my = index++;
            if (my >= start && (int) (my % (uint64_t) W) == w) {
                if (vf_deadline_passed()) return;
                vf_set_index(wexp_index_base + my);
                int variants = cf->with_noenc ? 1 + (n + 1) * (WO_NOPS - WO_FIRST_NOENC) : 1;
                for (int v = 0; v < variants; v++) {
                    int m = 0;
                    if (v == 0) { for (int i = 0; i < n; i++) seq[m++] = cf->alpha[idx[i]]; }
                    else {
                        int pos = (v - 1) / (WO_NOPS - WO_FIRST_NOENC), which = WO_FIRST_NOENC + (v - 1) % (WO_NOPS - WO_FIRST_NOENC);
                        for (int i = 0; i <= n; i++) { if (i == pos) seq[m++] = which; if (i < n) seq[m++] = cf->alpha[idx[i]]; }
                    }
                    size_t size = wexp_one_seq(cf, seq, m, sigprefix);
                    if (vf_want_sample() && m == cf->K && v == 0 && size > 3) {
                        vf_str s = { 0 };
                        vf_str_printf(&s, "writer ops [");
                        for (int i = 0; i < m; i++) vf_str_printf(&s, "%s%s", i ? ", " : "", wo_name[seq[i]]);
                        vf_str_printf(&s, "] run at every capacity 0..%zu (encoded size %zu)", size + 1, size);
                        vf_sample("%s", s.s);
                        vf_str_free(&s);
                    }
                }
            }
            /* odometer */
            int k = n - 1;
            while (k >= 0 && ++idx[k] == cf->nalpha) { idx[k] = 0; k--; }
            if (k < 0) break;
        }
    }
}


/* value pass: one parametric operation, alone and between two one-byte tokens, x every capacity - integers +-2^k+d for every k,
 * double bit patterns, every payload length 0..maxlen for string_with_len / bytes / write_string / write_raw, and a list of longer
 * lengths (round and not round) at the capacities around the piece boundaries */
static void wexp_values(const wexp_cfg *cf, int w, int W, uint64_t start, const char *sigprefix, size_t maxlen)
{
    wexp_fill_payload();
    uint64_t index = 0;
    int seq[3];
#define VALUE_RUNS(op) do { seq[0] = (op); wexp_one_seq(cf, seq, 1, sigprefix); seq[0] = WO_TRUE; seq[1] = (op); seq[2] = WO_FALSE; wexp_one_seq(cf, seq, 3, sigprefix); } while (0)
#define MINE() (index++, (index - 1) >= start && (int) ((index - 1) % (uint64_t) W) == w && (vf_set_index(wexp_index_base + index - 1), true))
    for (int k = 0; k < 64; k++)
        for (int d = -2; d <= 2; d++)
            for (int sgn = 0; sgn < 2; sgn++) {
                if (!MINE()) continue;
                uint64_t u = (1ULL << k) + (uint64_t) (int64_t) d;
                wexp_vint = (int64_t) (sgn ? (uint64_t) 0 - u : u);
                VALUE_RUNS(WO_INT_V);
            }
    /* sparse byte patterns far from every power of two: each of the 8 bytes either 0x00 or a non-zero fill (all 256 masks x 4 fills) */
    {
        static const uint8_t fills[] = { 0x01, 0x5a, 0x80, 0xff };
        for (int f = 0; f < 4; f++)
            for (int mask = 1; mask < 256; mask++) {
                if (!MINE()) continue;
                uint64_t u = 0;
                for (int b = 0; b < 8; b++) if (mask & (1 << b)) u |= (uint64_t) fills[f] << (8 * b);
                wexp_vint = (int64_t) u; VALUE_RUNS(WO_INT_V);
                wexp_vdbl = u; VALUE_RUNS(WO_DBL_V);
            }
    }
    {
        int64_t p10 = 1;
        for (int k = 0; k <= 18; p10 = k < 18 ? p10 * 10 : p10, k++) {
            if (!MINE()) continue;
            for (int d = -1; d <= 1; d++) for (int sg = 0; sg < 2; sg++) { wexp_vint = sg ? -(p10 + d) : p10 + d; VALUE_RUNS(WO_INT_V); }
        }
    }
    static const uint64_t dbl[] = { 0, 0x8000000000000000ULL, 0x3ff0000000000000ULL, 0x7ff0000000000000ULL, 0xfff8000000000001ULL, 1, 0x0102030405060708ULL, 0xffffffffffffffffULL, 0x00ff00ff00ff00ffULL, 0xff00ff00ff00ff00ULL };
    for (size_t i = 0; i < sizeof dbl / sizeof dbl[0]; i++) { if (!MINE()) continue; wexp_vdbl = dbl[i]; VALUE_RUNS(WO_DBL_V); }
    for (size_t l = 0; l <= maxlen; l++) {
        if (!MINE()) continue;
        if (vf_deadline_passed()) return;
        wexp_vlen = l;
        VALUE_RUNS(WO_STR_L); VALUE_RUNS(WO_BYT_L); VALUE_RUNS(WO_STRZ_L); VALUE_RUNS(WO_RAW_L);
    }
    static const size_t longer[] = { 2047, 2048, 4608, 4863, 32767, 32768, 32769, 49152, 65535, 65536, 65537, 65792, 65794, 70000, 98304, 131071, 131072, 131073, 196608 };
    for (size_t i = 0; i < sizeof longer / sizeof longer[0]; i++) {
        if (!MINE()) continue;
        wexp_vlen = longer[i];
        VALUE_RUNS(WO_STR_L); VALUE_RUNS(WO_BYT_L); VALUE_RUNS(WO_STRZ_L); VALUE_RUNS(WO_RAW_L);
    }
#undef VALUE_RUNS
#undef MINE
}

/* replay of a writer case */
static int wexp_replay(const wexp_cfg *cf, const char *text)
{
    char *cap = vf_replay_get(text, "capacity"), *ops = vf_replay_get(text, "ops");
    if (!cap || !ops) vf_die("writer replay lacks capacity/ops");
    wexp_fill_payload();
    { char *a = vf_replay_get(text, "vint"), *b = vf_replay_get(text, "vdbl"), *c = vf_replay_get(text, "vlen");
      if (a) wexp_vint = strtoll(a, NULL, 10);
      if (b) wexp_vdbl = strtoull(b, NULL, 10);
      if (c) wexp_vlen = (size_t) strtoull(c, NULL, 10); }
    int seq[16], n = 0;
    for (char *p = ops; *p && n < 16;) { while (*p == ' ') p++; if (!*p) break; seq[n++] = (int) strtol(p, &p, 10); }
    wexp_mm mm;
    vf_g.wid = 0;
    if (!wexp_run(cf, seq, n, (size_t) atol(cap), &mm, false)) {
        printf("replay: %s\nVIOLATION property=%s replay=%s\n", mm.why, vf_g.prop, vf_g.replay);
        return VF_EXIT_VIOLATION;
    }
    printf("replay: writer sequence passes all oracles\n");
    return VF_EXIT_OK;
}

#endif
