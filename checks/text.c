/* text.c - C13 (to_string obeys its size protocol, never overruns) and
 * C14 (printed text is the faithful rendering).
 * C13: every enumerated valid document x EVERY capacity 0..need+3 (exact-size
 * heap destination under ASan) x nice in {false,true}; NULL query with stale
 * sizes; every enumerated INVALID input x capacities {NULL,0,1,16,4096}.
 * C14: to_string (ample) and the captured stdout of binson_parser_print against
 * the reference renderer. */
#include "../lib/vf_util.h"
#include "../lib/vf_ref.h"
#include "../lib/vf_gen.h"
#include "../lib/vf_run.h"
#include "../lib/vf_snap.h"
#include <sys/mman.h>
#include <math.h>

enum { CT_DOCS, CT_RUNS, CT_TOO_SMALL, CT_FITS, CT_NULLQ, CT_INVALID_INPUTS, CT_INVALID_RUNS, CT_PRINT_RUNS, CT_TEXT_BYTES, CT_EXACT_FIT, CT_MAXNEED, CT_WITH_EMPTY_CONTAINER,
       CT_SIBLING_AFTER_CONTAINER, CT_STATES };
static const char *const ctr_names[VF_NCTR] = {
    "valid_documents", "to_string_runs", "runs_capacity_too_small", "runs_capacity_sufficient", "null_buffer_queries", "invalid_inputs", "runs_on_invalid_inputs",
    "print_runs_captured", "text_bytes_compared", "runs_capacity_exactly_need", "max_need_bytes", "documents_with_an_empty_container", "documents_with_a_sibling_after_a_container",
    "doc_capacity_pairs"
};

static int P_C13, P_C14;
static size_t MARKS[4096]; static int NMARKS;      /* token boundaries of the current long document (0 = use every capacity) */
static vf_doc *D;
static const uint8_t *IN; static size_t INLEN; static int KIND; static const char *LABEL;
static long cur_cap = -2; static int cur_nice;
static int outfd = -1;         /* memfd capturing stdout of print */

static void describe(vf_str *o)
{
    vf_str_printf(o, "root: %s\ninput_hex: ", KIND == VK_OBJ ? "object" : "array");
    vf_str_hex(o, IN, INLEN);
    vf_str_printf(o, "\nlabel: %s\ncapacity: %ld\nnice: %d\n", LABEL ? LABEL : "", cur_cap, cur_nice);
}
static char why[400], sigk[80];
static bool fail(const char *sig, const char *fmt, ...) __attribute__((format(printf, 2, 3)));
static bool fail(const char *sig, const char *fmt, ...)
{
    va_list ap;
    va_start(ap, fmt);
    vsnprintf(why, sizeof why, fmt, ap);
    va_end(ap);
    snprintf(sigk, sizeof sigk, "%s", sig);
    return false;
}

static vf_live L;
static bool init_live(int md)
{
    vf_live_alloc(&L, IN, INLEN, md, 0);
    return KIND == VK_OBJ ? binson_parser_init_object(L.p, vf_live_bufptr(&L), L.len) : binson_parser_init_array(L.p, vf_live_bufptr(&L), L.len);
}

/* What the parser object was used for before the to_string call under test (the answer must not depend on it):
 * 0 fresh after init, 1 a partial traversal, 2 left in an error state (NULL name lookup), 3 an earlier to_string that failed for lack of room,
 * 4 an earlier to_string on another parser that aborted inside an array */
static int HISTORY;
static bool poison_pending;
/* prior use of to_string in the same process, on ANOTHER parser object: a rendering that aborts inside an array after one element
 * (an undefined type byte). Whatever it leaves behind must not leak into the call under test. */
static void poison_to_string(void)
{
    static const uint8_t bad[] = { 0x40, 0x14, 0x01, 'a', 0x42, 0x10, 0x01, 0x47, 0x43, 0x41 };
    binson_state st[2];
    binson_parser q;
    char out[64];
    size_t z = sizeof out;
    memset(&q, 0, sizeof q);
    q.state = st; q.max_depth = 2;
    if (binson_parser_init_object(&q, bad, sizeof bad)) (void) binson_parser_to_string(&q, out, &z, false);
}
static void apply_history(void)
{
    binson_parser *p = L.p;
    size_t z = 1;
    char one;
    switch (HISTORY) {
    case 1: if (KIND == VK_OBJ) binson_parser_go_into_object(p); else binson_parser_go_into_array(p); binson_parser_next(p); break;
    case 2: binson_parser_field_with_length(p, NULL, 0); break;
    case 3: binson_parser_to_string(p, &one, &z, false); break;
    case 4: if (poison_pending) { poison_to_string(); poison_pending = false; } break;   /* once, before the first call of the series */
    default: break;
    }
}
/* one to_string call on an exact-size destination. cap < 0: NULL buffer with *size = stale */
static bool call_to_string(long cap, size_t stale, bool nice, size_t *size_out, char **text_out)
{
    apply_history();
    char *blk = NULL, *dst = NULL;
    size_t sz;
    if (cap >= 0) {
        blk = (char *) vf_xmalloc(cap ? (size_t) cap : 1);
        memset(blk, 0x5c, cap ? (size_t) cap : 1);
        dst = cap ? blk : blk + 1;      /* capacity 0: the end of a one-byte block */
        sz = (size_t) cap;
    } else sz = stale;
    cur_cap = cap; cur_nice = nice;
    vf_progress++;
    vf_count(CT_RUNS, 1);
    vf_stack_paint();
    bool r = binson_parser_to_string(L.p, dst, &sz, nice);
    *size_out = sz;
    if (text_out) *text_out = blk; else free(blk);
    return r;
}

/* C13 on one valid document; returns false with why/sigk on the first protocol breach */
static bool protocol_valid(const char *ref_text)
{
    poison_pending = true;
    size_t need = 0, sz;
    static const size_t stale[] = { 0, 7, (size_t) -1 };
    for (int i = 0; i < 3; i++) {
        cur_cap = -1;
        bool r = call_to_string(-1, stale[i], false, &sz, NULL);
        vf_count(CT_NULLQ, 1);
        if (r) return fail("null-true", "to_string(NULL) returned true");
        if (i == 0) need = sz; else if (sz != need) return fail("null-size-varies", "NULL query reports %zu with stale size %zu but %zu before", sz, stale[i], need);
    }
    if (need == 0) return fail("need-zero", "NULL query reports 0 bytes required");
    vf_max(CT_MAXNEED, need);
    char *ample = NULL;
    size_t tl = 0;
    for (long cap = 0; cap <= (long) need + 3; cap++) {
        if (NMARKS && cap > 8) {
            /* long documents: every capacity within 3 of a token boundary of the rendering (and 0..8, need-3..need+3) */
            bool near = (size_t) cap + 3 >= need;
            for (int k = 0; k < NMARKS && !near; k++) if ((size_t) cap + 3 >= MARKS[k] && (size_t) cap <= MARKS[k] + 3) near = true;
            if (!near) continue;
        }
        vf_count(CT_STATES, 1);
        for (int nice = 0; nice < 2; nice++) {
            char *txt = NULL;
            bool r = call_to_string(cap, 0, nice, &sz, &txt);
            const char *dst = cap ? txt : txt + 1;
            if ((size_t) cap < need) {
                vf_count(CT_TOO_SMALL, 1);
                if (r) { free(txt); return fail("small-true", "capacity %ld < required %zu but to_string returned true", cap, need); }
                if (sz != need) { free(txt); return fail("small-size", "capacity %ld: *size=%zu, the NULL query said %zu", cap, sz, need); }
            } else {
                vf_count(CT_FITS, 1);
                if ((size_t) cap == need) vf_count(CT_EXACT_FIT, 1);
                if (!r) { free(txt); return fail("fit-false", "capacity %ld >= required %zu but to_string returned false (*size=%zu)", cap, need, sz); }
                if (sz != need - 1) { free(txt); return fail("fit-size", "capacity %ld: *size=%zu, expected the text length %zu", cap, sz, need - 1); }
                if (dst[need - 1] != 0 || strnlen(dst, need) != need - 1) { free(txt); return fail("fit-nul", "capacity %ld: text is not NUL-terminated at index %zu", cap, need - 1); }
                if (!ample) { ample = strdup(dst); tl = need - 1; }
                else if (memcmp(ample, dst, need)) { free(txt); free(ample); return fail("fit-text-varies", "capacity %ld (nice %d): text differs from the text at capacity %zu", cap, nice, need); }
            }
            free(txt);
        }
    }
    bool ok = true;
    /* capacities beyond 32 bits (a real, lazily backed arena of 2^32 + 64 KiB): ample is ample, whatever its low 32 bits say */
    if (HISTORY == 0 && need < 60000) {
        static char *arena; static bool tried;
        const size_t G4 = (size_t) 1 << 32;
        if (!tried) { tried = true; void *m = mmap(NULL, G4 + 65536, PROT_READ | PROT_WRITE, MAP_PRIVATE | MAP_ANONYMOUS | MAP_NORESERVE, -1, 0); arena = m == MAP_FAILED ? NULL : (char *) m; }
        if (arena && sizeof(size_t) > 4) {
            const size_t caps[] = { G4, G4 + 1, G4 + need - 1, G4 + need, G4 + 65535 };
            for (int i = 0; ok && i < 5; i++) {
                apply_history();
                sz = caps[i];
                cur_cap = -3; cur_nice = 0;
                memset(arena, 0x5c, need + 1);
                vf_count(CT_RUNS, 1);
                bool r = binson_parser_to_string(L.p, arena, &sz, false);
                if (!r || sz != need - 1 || memcmp(arena, ample, need))
                    ok = fail("huge-capacity", "capacity 2^32 + %zu: returned %d, *size=%zu (text needs %zu + terminator)", caps[i] - G4, r, sz, need - 1);
            }
        }
    }
    if (ok && ref_text && P_C14 && (strlen(ref_text) != tl || memcmp(ref_text, ample, tl))) ok = fail("render", "to_string text differs from the reference rendering");
    free(ample);
    return ok;
}

static bool protocol_invalid(void)
{
    static const long caps[] = { -1, 0, 1, 16, 4096 };
    for (int i = 0; i < 5; i++) {
        size_t sz;
        vf_count(CT_INVALID_RUNS, 1);
        bool r = call_to_string(caps[i], 99, i & 1, &sz, NULL);
        if (r) return fail("invalid-true", "to_string returned true on an invalid document (capacity %ld)", caps[i]);
    }
    return true;
}

/* C14: both texts against the reference rendering */
/* prior use of print in the same process, on ANOTHER parser object: a print that aborts inside an array after one element
 * (an undefined type byte). Whatever it leaves behind must not leak into the print under test. */
static void poison_print(void)
{
    static const uint8_t bad[] = { 0x40, 0x14, 0x01, 'a', 0x42, 0x10, 0x01, 0x47, 0x43, 0x41 };
    binson_state st[2];
    binson_parser q;
    memset(&q, 0, sizeof q);
    q.state = st; q.max_depth = 2;
    if (binson_parser_init_object(&q, bad, sizeof bad)) (void) binson_parser_print(&q);
    fflush(stdout);
}
static char *capture_print(size_t *len, bool *ret)
{
    poison_print();
    fflush(stdout);
    if (ftruncate(outfd, 0) || lseek(outfd, 0, SEEK_SET) < 0) vf_die("memfd reset");
    vf_progress++;
    *ret = binson_parser_print(L.p);
    fflush(stdout);
    off_t n = lseek(outfd, 0, SEEK_CUR);
    char *b = (char *) vf_xmalloc((size_t) n + 1);
    if (pread(outfd, b, (size_t) n, 0) != n) vf_die("memfd read");
    b[n] = 0;
    *len = (size_t) n;
    vf_count(CT_PRINT_RUNS, 1);
    return b;
}
static bool render_check(const char *ref, size_t rl)
{
    size_t sz = rl + 64;
    char *buf = (char *) vf_xmalloc(sz);
    poison_to_string();
    cur_cap = (long) sz; cur_nice = 0;
    vf_count(CT_RUNS, 1);
    bool r = binson_parser_to_string(L.p, buf, &sz, false);
    bool ok = true;
    if (!r) ok = fail("tostring-false", "to_string with ample capacity returned false");
    else if (sz != rl || memcmp(buf, ref, rl + 1)) {
        size_t i = 0;
        while (i < rl && i < sz && buf[i] == ref[i]) i++;
        ok = fail("tostring-text", "to_string text differs from the reference rendering at offset %zu: got '%.40s' expected '%.40s'", i, buf + (i > 10 ? i - 10 : 0), ref + (i > 10 ? i - 10 : 0));
    }
    free(buf);
    if (!ok) return false;
    vf_count(CT_TEXT_BYTES, rl);
    /* whenever to_string returns true the stored text must be the rendering: also at the tightest capacities */
    for (size_t cap = rl ? rl - 1 : 0; cap <= rl + 1; cap++) {
        char *blk = (char *) vf_xmalloc(cap ? cap : 1);
        char *dst = cap ? blk : blk + 1;
        size_t s2 = cap;
        cur_cap = (long) cap;
        vf_count(CT_RUNS, 1);
        if (binson_parser_to_string(L.p, dst, &s2, true)) {
            if (cap < rl + 1 || s2 != rl || memcmp(dst, ref, rl + 1))
                ok = fail("tostring-true-but-wrong", "to_string returned true at capacity %zu (text needs %zu + terminator) but the stored text is not the complete rendering", cap, rl);
        }
        free(blk);
        if (!ok) return false;
    }
    size_t pl; bool pr;
    char *pt = capture_print(&pl, &pr);
    if (!pr) ok = fail("print-false", "binson_parser_print returned false on a valid document");
    else if (pl != rl || memcmp(pt, ref, rl)) {
        size_t i = 0;
        while (i < rl && i < pl && pt[i] == ref[i]) i++;
        ok = fail("print-text", "print output differs from the reference rendering at offset %zu: got '%.40s' expected '%.40s'", i, pt + (i > 10 ? i - 10 : 0), ref + (i > 10 ? i - 10 : 0));
    }
    free(pt);
    vf_count(CT_TEXT_BYTES, rl);
    return ok;
}

static int needed_depth(const vf_doc *d)
{
    int best = 1;
    for (int i = 0; i < d->nn; i++) {
        if (d->n[i].kind != VK_OBJ) continue;
        int od = d->root_kind == VK_ARR ? 1 : 0;
        for (int x = i; x >= 0; x = d->n[x].parent) if (d->n[x].kind == VK_OBJ) od++;
        if (od > best) best = od;
    }
    return best;
}

static bool LONGDOC;
static bool run_valid_once(void)
{
    static vf_str ref;
    NMARKS = 0;
    if (LONGDOC) { vf_render_marks = MARKS; vf_render_nmarks = 0; vf_render_maxmarks = 4096; }
    vf_ref_render(D, &ref);
    if (LONGDOC) { NMARKS = vf_render_nmarks; vf_render_marks = NULL; }
    if (!init_live(needed_depth(D))) { vf_live_free(&L); return fail("init", "init rejects a valid document"); }
    bool ok = true;
    if (P_C13) {
        for (HISTORY = 0; ok && HISTORY < 5; HISTORY++) {
            if (LONGDOC && (HISTORY == 1 || HISTORY == 3)) continue;
            ok = protocol_valid(NULL);
            if (!ok) { size_t l = strlen(why); snprintf(why + l, sizeof why - l, " [prior use of the parser: %d]", HISTORY); }
        }
        HISTORY = 0;
    } else ok = render_check(ref.s, ref.n);
    vf_live_free(&L);
    return ok;
}
static void report(const char *what)
{
    char sig[160];
    snprintf(sig, sizeof sig, "text:%s:%s", what, sigk);
    vf_str b = { 0 };
    describe(&b);
    vf_str_printf(&b, "mismatch: %s\n", why);
    vf_violation(sig, b.s);
    vf_str_free(&b);
}
static void run_valid(vf_doc *d, const char *label)
{
    D = d; IN = d->bytes; INLEN = d->len; KIND = d->root_kind; LABEL = label;
    vf_count(CT_DOCS, 1);
    bool has_empty = false, sib_after = false;
    for (int i = 1; i < d->nn; i++) {
        if ((d->n[i].kind == VK_OBJ || d->n[i].kind == VK_ARR)) { if (d->n[i].nch == 0) has_empty = true; if (d->n[i].next >= 0) sib_after = true; }
    }
    if (has_empty) vf_count(CT_WITH_EMPTY_CONTAINER, 1);
    if (sib_after) vf_count(CT_SIBLING_AFTER_CONTAINER, 1);
    if (!run_valid_once()) {
        char w1[400], s1[80];
        snprintf(w1, sizeof w1, "%s", why); snprintf(s1, sizeof s1, "%s", sigk);
        if (run_valid_once()) vf_die("text violation did not reproduce (%s)", w1);
        if (strcmp(w1, why)) { snprintf(why, sizeof why, "%.330s [details vary from run to run with identical inputs]", w1); snprintf(sigk, sizeof sigk, "%s", s1); }
        /* the signature carries the structural context of a rendering mismatch so that different defects stay distinct */
        report(P_C13 ? "protocol" : "render");
    }
}
static void run_invalid(const uint8_t *b, size_t n, int kind, const char *label)
{
    IN = b; INLEN = n; KIND = kind; LABEL = label; D = NULL;
    if (vf_ref_decode(b, n, kind, 3, NULL) == VR_OK) return;       /* only invalid inputs here */
    vf_count(CT_INVALID_INPUTS, 1);
    init_live(3);
    bool ok = protocol_invalid();
    vf_live_free(&L);
    if (!ok) report("invalid");
}

static int g_w, g_W; static uint64_t g_start, g_index;
static bool take(void)
{
    uint64_t i = g_index++;
    if (i < g_start || (int) (i % (uint64_t) g_W) != g_w) return false;
    vf_set_index(i);
    return true;
}
static void on_doc(vf_gen *g, void *u)
{
    (void) u;
    if (!take()) return;
    if (vf_deadline_passed()) { g->stop = true; return; }
    if (vf_want_sample() && g->doc.nn >= 4 && (g->index % 499) == 0) {
        static vf_str r;
        vf_ref_render(&g->doc, &r);
        vf_sample("document with reference text %.300s", r.s);
    }
    run_valid(&g->doc, vf_shape(&g->doc));
}
static void on_seq(vf_tokenum *e, void *u)
{
    (void) u;
    if (!take()) return;
    run_invalid(e->buf, e->len, e->frame, vf_tokenum_label(e));
}
static char mlabel[300];
static void on_mut(const uint8_t *m, size_t n, const char *what, void *u)
{
    const vf_doc *d = (const vf_doc *) u;
    if (!take()) return;
    snprintf(mlabel, sizeof mlabel, "mutant of %s: %s", vf_shape(d), what);
    run_invalid(m, n, d->root_kind, mlabel);
}
static void on_trailing(const uint8_t *b, size_t n, int kind, const char *label, void *u)
{
    (void) u;
    if (!take()) return;
    run_invalid(b, n, kind, label);
}
static uint8_t *mscratch;
static void on_doc_mut(vf_gen *g, void *u)
{
    (void) u;
    static vf_doc copy;
    copy = g->doc;
    vf_mutants(g->doc.bytes, g->doc.len, mscratch, 4096, on_mut, &copy);
}

/* values and names of 200 / 32768 bytes (2- and 4-byte length prefixes; a bytes value of 32768 renders as 65541 characters) */
static void long_family(void)
{
    static vf_doc ld;
    static uint8_t big[66000];
    for (size_t i = 0; i < sizeof big; i++) big[i] = (uint8_t) ('A' + i % 50);
    static const size_t lens[] = { 127, 128, 255, 256, 300, 32767, 32768, 65535, 65536, 66000 };
    /* nul: 0 = payload without a 0x00; 1 = a 0x00 at offset 100 (the text ends there); 2 = a 0x00 as the last byte */
    for (int nul = 0; nul < 3; nul++)
    for (size_t li = 0; li < sizeof lens / sizeof lens[0]; li++)
        for (int shape = 0; shape < 4; shape++) {
            if (!take()) continue;
            if (vf_deadline_passed()) return;
            for (size_t i = 0; i < sizeof big; i++) big[i] = (uint8_t) ('A' + i % 50);
            if (nul == 1) big[100] = 0;
            if (nul == 2) big[lens[li] - 1] = 0;
            vf_b_reset(&ld);
            switch (shape) {
            case 0: vf_b_open(&ld, VK_OBJ); vf_b_name(&ld, "A", 1); vf_b_blob(&ld, VK_STR, big, lens[li]); vf_b_name(&ld, "B", 1); vf_b_int(&ld, 1); vf_b_close(&ld); break;
            case 1: vf_b_open(&ld, VK_ARR); vf_b_blob(&ld, VK_BYT, big, lens[li]); vf_b_bool(&ld, true); vf_b_close(&ld); break;
            case 2: vf_b_open(&ld, VK_OBJ); vf_b_name(&ld, big, lens[li]); vf_b_open(&ld, VK_ARR); vf_b_int(&ld, 1); vf_b_close(&ld); vf_b_close(&ld); break;
            default: vf_b_open(&ld, VK_OBJ); vf_b_name(&ld, "A", 1); vf_b_open(&ld, VK_ARR); vf_b_blob(&ld, VK_BYT, big, lens[li]); vf_b_blob(&ld, VK_STR, big, lens[li]); vf_b_close(&ld); vf_b_close(&ld); break;
            }
            char lab[80];
            snprintf(lab, sizeof lab, "long payload: shape %d, length %zu%s", shape, lens[li], nul == 1 ? ", 0x00 at offset 100" : nul == 2 ? ", 0x00 as last byte" : "");
            LONGDOC = lens[li] > 1000;
            run_valid(&ld, lab);
            LONGDOC = false;
        }
}

/* value family: the rendering of single values - integers around every width boundary, double bit patterns (sign, exponent extremes,
 * NaN / infinity / subnormal / -0.0), every byte value inside strings, names and bytes (hex pairs), every small length -
 * carried as {"A":v} and [v] */
static vf_doc VD;
static void vcarrier_begin(int form) { vf_b_reset(&VD); if (form == 0) { vf_b_open(&VD, VK_OBJ); vf_b_name(&VD, "A", 1); } else vf_b_open(&VD, VK_ARR); }
static void vcarrier_end(const char *lab) { vf_b_close(&VD); run_valid(&VD, lab); }
static void value_family(void)
{
    char lab[96];
    for (int k = 0; k < 64; k++) {
        if (!take()) continue;
        for (int d = -2; d <= 2; d++) for (int sgn = 0; sgn < 2; sgn++) {
            uint64_t u = (1ULL << k) + (uint64_t) (int64_t) d;
            int64_t v = (int64_t) (sgn ? (uint64_t) 0 - u : u);
            snprintf(lab, sizeof lab, "integer %lld", (long long) v);
            vcarrier_begin((k + d + sgn) & 1); vf_b_int(&VD, v); vcarrier_end(lab);
        }
    }
    /* decimal boundaries: +-(10^k + d), k = 0..18, |d| <= 1, as integer; 10^k and 10^k - 0.5 as double for k = 0..22 and 10^300 */
    {
        int64_t p10 = 1;
        for (int k = 0; k <= 18; p10 = k < 18 ? p10 * 10 : p10, k++) {
            if (!take()) continue;
            for (int d = -1; d <= 1; d++) for (int sg = 0; sg < 2; sg++) {
                int64_t v = sg ? -(p10 + d) : p10 + d;
                snprintf(lab, sizeof lab, "integer %lld", (long long) v);
                vcarrier_begin((k + d + sg) & 1); vf_b_int(&VD, v); vcarrier_end(lab);
            }
        }
        double dv = 1.0;
        for (int k = 0; k <= 23; k++, dv *= 10.0) {
            if (!take()) continue;
            double cand[3] = { k == 23 ? 1e300 : dv, -(dv - 0.5), dv + 0.999999 };
            for (int i = 0; i < 3; i++) {
                uint64_t bits; memcpy(&bits, &cand[i], 8);
                snprintf(lab, sizeof lab, "double with bits %016llx", (unsigned long long) bits);
                vcarrier_begin((k + i) & 1); vf_b_dbits(&VD, bits); vcarrier_end(lab);
            }
        }
    }
    /* decimal ROUNDING boundaries of %f: 10^k - 5e-7 and its two neighbours (the 6th decimal rounds up into a new digit), ties at
     * the 6th decimal (odd multiples of 5e-7, full mantissas), values just below an integer */
    {
        double p10 = 1.0;
        for (int k = 0; k <= 15; k++, p10 *= 10.0) {
            if (!take()) continue;
            double b = p10 - 0.0000005;
            double cand[6] = { b, nextafter(b, 0.0), nextafter(b, 1e300), -b, p10 - 0.0000004, p10 - 0.0000006 };
            for (int i = 0; i < 6; i++) {
                uint64_t bits; memcpy(&bits, &cand[i], 8);
                snprintf(lab, sizeof lab, "double with bits %016llx", (unsigned long long) bits);
                vcarrier_begin((k + i) & 1); vf_b_dbits(&VD, bits); vcarrier_end(lab);
            }
        }
        static const double ties[] = { 0.0000005, 0.0000015, 0.0000025, 0.0000035, 0.0000045, 0.0000145, 0.1234575, 0.1234565, 0.9999995, 0.5000005, 1.0000005, 41.9999999, 2.9999999999999996,
                                       0.9999999999, 7.9999995, 123456.7890125, 123456.7890135, 4294967294.9999995, 4294967295.5, 0.0000004999999999, 0.00000050000000001, 999.99999949999994,
                                       9.9999994999999995, 99999.999999499996 };
        for (size_t i = 0; i < sizeof ties / sizeof ties[0]; i++) {
            if (!take()) continue;
            for (int sg = 0; sg < 2; sg++) {
                double v = sg ? -ties[i] : ties[i];
                uint64_t bits; memcpy(&bits, &v, 8);
                snprintf(lab, sizeof lab, "double with bits %016llx", (unsigned long long) bits);
                vcarrier_begin((int) (i + sg) & 1); vf_b_dbits(&VD, bits); vcarrier_end(lab);
            }
        }
    }
    /* sparse byte patterns far from every power of two (each byte 0x00 or a fill), as integer and as double */
    {
        static const uint8_t fills[] = { 0x01, 0x5a, 0x80, 0xff };
        for (int f = 0; f < 4; f++)
            for (int mask = 1; mask < 256; mask += (vf_g.thorough ? 1 : 2)) {
                if (!take()) continue;
                uint64_t u = 0;
                for (int b = 0; b < 8; b++) if (mask & (1 << b)) u |= (uint64_t) fills[f] << (8 * b);
                snprintf(lab, sizeof lab, "sparse pattern %016llx as integer / double", (unsigned long long) u);
                vcarrier_begin(mask & 1); vf_b_int(&VD, (int64_t) u); vcarrier_end(lab);
                if (f == 1 || vf_g.thorough) { vcarrier_begin(~mask & 1); vf_b_dbits(&VD, u); vcarrier_end(lab); }
            }
    }
    /* doubles: top 16 bits (sign, exponent, 4 mantissa bits) in steps, x 2 low patterns; C13 explores every capacity of renderings of up to 317 characters */
    unsigned step = vf_g.thorough ? 8 : 128;
    static const uint64_t low[] = { 0, 0x0000923456789abcULL };
    for (uint64_t top = 0; top < 65536; top += step) {
        if (!take()) continue;
        if (vf_deadline_passed()) return;
        for (int l = 0; l < 2; l++) {
            uint64_t bits = (top << 48) | low[l];
            snprintf(lab, sizeof lab, "double with bits %016llx", (unsigned long long) bits);
            vcarrier_begin((int) ((top / step) & 1)); vf_b_dbits(&VD, bits); vcarrier_end(lab);
        }
    }
    static const uint64_t special[] = { 0x8000000000000000ULL, 0x7ff0000000000000ULL, 0xfff0000000000000ULL, 0x7ff8000000000000ULL, 0xfff8000000000001ULL, 0x0000000000000001ULL,
                                        0x800fffffffffffffULL, 0x7fefffffffffffffULL, 0xffefffffffffffffULL, 0x3fe0000000000000ULL, 0x3feffffffffff800ULL, 0x412e847fe0000000ULL };
    for (size_t i = 0; i < sizeof special / sizeof special[0]; i++) {
        if (!take()) continue;
        snprintf(lab, sizeof lab, "double with bits %016llx", (unsigned long long) special[i]);
        for (int form = 0; form < 2; form++) { vcarrier_begin(form); vf_b_dbits(&VD, special[i]); vcarrier_end(lab); }
    }
    /* every byte value inside a string, a name and a bytes value */
    for (int b = 0; b < 256; b++) {
        if (!take()) continue;
        uint8_t one[1] = { (uint8_t) b }, mid[3] = { 'x', (uint8_t) b, 'y' }, two[2] = { (uint8_t) b, (uint8_t) (255 - b) };
        snprintf(lab, sizeof lab, "byte value 0x%02x in string / name / bytes", b);
        vcarrier_begin(0); vf_b_blob(&VD, VK_STR, one, 1); vcarrier_end(lab);
        vcarrier_begin(1); vf_b_blob(&VD, VK_STR, mid, 3); vcarrier_end(lab);
        vcarrier_begin(b & 1); vf_b_blob(&VD, VK_BYT, one, 1); vcarrier_end(lab);
        vcarrier_begin(~b & 1); vf_b_blob(&VD, VK_BYT, two, 2); vcarrier_end(lab);
        vf_b_reset(&VD); vf_b_open(&VD, VK_OBJ); vf_b_name(&VD, one, 1); vf_b_int(&VD, b); vcarrier_end(lab);
        vf_b_reset(&VD); vf_b_open(&VD, VK_OBJ); vf_b_name(&VD, mid, 3); vf_b_bool(&VD, b & 1); vcarrier_end(lab);
    }
    /* every length 0..maxlen of a string, a bytes value and a name */
    static uint8_t pay[2100];
    for (size_t i = 0; i < sizeof pay; i++) pay[i] = (uint8_t) ('!' + i % 90);
    size_t maxlen = vf_g.thorough ? 2050 : 270;
    for (size_t l = 0; l <= maxlen; l++) {
        if (!take()) continue;
        if (vf_deadline_passed()) return;
        snprintf(lab, sizeof lab, "payload length %zu", l);
        LONGDOC = l > 300;
        vcarrier_begin((int) (l & 1)); vf_b_blob(&VD, VK_STR, pay, l); vcarrier_end(lab);
        vcarrier_begin((int) (~l & 1)); vf_b_blob(&VD, VK_BYT, pay, l); vcarrier_end(lab);
        vf_b_reset(&VD); vf_b_open(&VD, VK_OBJ); vf_b_name(&VD, pay, l); vf_b_int(&VD, 7); vcarrier_end(lab);
        LONGDOC = false;
    }
}

/* nesting towers: k nested arrays / objects / alternating containers with a sibling AFTER the inner container at every level
 * (a separator decision taken from a truncated or wrapped picture of the open containers shows only on the way back up) */
static void tower_family(void)
{
    static vf_doc td;
    static const int ks[] = { 2, 7, 8, 9, 15, 16, 17, 31, 32, 33, 63, 64, 65, 66, 127, 128, 129, 200, 253, 254 };
    char lab[96];
    for (size_t ki = 0; ki < sizeof ks / sizeof ks[0]; ki++)
        for (int shape = 0; shape < 4; shape++) {
            if (!take()) continue;
            if (vf_deadline_passed()) return;
            int k = ks[ki];
            vf_b_reset(&td);
            /* shape 0: arrays in an array root; 1: arrays inside an object field; 2: objects; 3: alternating object / array */
            if (shape == 1) { vf_b_open(&td, VK_OBJ); vf_b_name(&td, "A", 1); }
            for (int i = 0; i < k; i++) {
                bool obj = shape == 2 || (shape == 3 && (i & 1) == 0);
                if (td.nopen && td.n[td.open[td.nopen - 1]].kind == VK_OBJ && !(shape == 1 && i == 0)) vf_b_name(&td, "A", 1);
                vf_b_open(&td, obj ? VK_OBJ : VK_ARR);
            }
            if (td.n[td.open[td.nopen - 1]].kind == VK_OBJ) vf_b_name(&td, "A", 1);
            vf_b_int(&td, 1);
            for (int i = 0; i < k; i++) {
                vf_b_close(&td);
                if (td.nopen) {     /* a sibling after the container just closed */
                    if (td.n[td.open[td.nopen - 1]].kind == VK_OBJ) vf_b_name(&td, "B", 1);
                    if (i % 3 == 0) vf_b_bool(&td, true); else if (i % 3 == 1) vf_b_int(&td, 5); else { vf_b_open(&td, VK_ARR); vf_b_close(&td); }
                }
            }
            if (shape == 1) vf_b_close(&td);
            snprintf(lab, sizeof lab, "tower: shape %d, %d nested containers, a sibling after each", shape, k);
            LONGDOC = k > 40;
            run_valid(&td, lab);
            LONGDOC = false;
        }
}

static int N_DOC, N_DOC_PLAIN;
static void worker(int w, int W, uint64_t start)
{
    g_w = w; g_W = W; g_start = start; g_index = 0;
    vf_fatal_describe = describe;
    mscratch = (uint8_t *) vf_xmalloc(4096);
    outfd = memfd_create("vf_stdout", 0);
    if (outfd < 0) vf_die("memfd_create");
    fflush(stdout);
    if (dup2(outfd, 1) < 0) vf_die("dup2");
    long_family();
    value_family();
    tower_family();
    /* 1. all value kinds, small documents */
    static const int cls[] = { LC_INT8, LC_INTMIN, LC_DBL, LC_DBLBIG, LC_STR, LC_STR0, LC_STRNUL, LC_BYT0, LC_BYT, LC_BYT40, LC_TRUE, LC_FALSE, LC_OBJ, LC_ARR };
    static const vf_name names[] = { { (const uint8_t *) "A", 1 }, { (const uint8_t *) "B", 1 }, { (const uint8_t *) "C\0x", 3 } };
    static vf_gen g;
    for (int root = VK_OBJ; root <= VK_ARR; root++) {
        memset(&g, 0, sizeof g);
        g.root_kind = root; g.max_tokens = N_DOC; g.classes = cls; g.nclasses = 14; g.names = names; g.nnames = 3; g.cb = on_doc;
        vf_gen_run(&g);
    }
    /* 2. separator structure: deeper documents over {int, bytes, {}, []} : every combination of empty / non-empty containers as first, middle, last sibling */
    static const int cls2[] = { LC_INT8, LC_BYT, LC_OBJ, LC_ARR };
    for (int root = VK_OBJ; root <= VK_ARR; root++) {
        memset(&g, 0, sizeof g);
        g.root_kind = root; g.max_tokens = N_DOC_PLAIN; g.classes = cls2; g.nclasses = 4; g.names = names; g.nnames = 3; g.cb = on_doc;
        vf_gen_run(&g);
    }
    /* 2b. sibling family: every pair and triple of small sibling subtrees (separators after every shape of sibling) */
    memset(&g, 0, sizeof g);
    g.cb = on_doc;
    vf_sibling_run(&g, 2);
    /* 3. invalid inputs (C13: false for every capacity) */
    if (P_C13) {
        vf_trailing_inputs(on_trailing, NULL);      /* a complete root followed by 1 .. 262144 junk bytes */
        vf_tokenum e;
        for (int frame = 1; frame <= 2; frame++) {
            memset(&e, 0, sizeof e);
            e.alpha = vf_tok_hostile; e.ntok = VF_NTOK_HOSTILE; e.maxlen = vf_g.thorough ? 3 : 2; e.frame = frame == 1 ? VK_OBJ : VK_ARR;
            e.cb = on_seq; e.w = 0; e.W = 1;
            vf_tokenum_run(&e);
        }
        static const int cls3[] = { LC_INT8, LC_STR, LC_BYT, LC_DBL, LC_OBJ, LC_ARR };
        for (int root = VK_OBJ; root <= VK_ARR; root++) {
            memset(&g, 0, sizeof g);
            g.root_kind = root; g.max_tokens = 2; g.classes = cls3; g.nclasses = 6; g.names = names; g.nnames = 2; g.cb = on_doc_mut;
            vf_gen_run(&g);
        }
    }
}

static void replay_main(void)
{
    char *t = vf_replay_load(vf_g.replay);
    char *root = vf_replay_get(t, "root"), *hex = vf_replay_get(t, "input_hex");
    if (!root || !hex) vf_die("replay file lacks root/input_hex");
    static uint8_t bytes[400000];
    static vf_doc R;
    long n = vf_unhex(bytes, sizeof bytes, hex);
    if (n < 0) vf_die("bad input_hex");
    int kind = !strcmp(root, "object") ? VK_OBJ : VK_ARR;
    vf_g.wid = 0;
    vf_fatal_describe = describe;
    vf_install_fatal();
    outfd = memfd_create("vf_stdout", 0);
    int saved = dup(1);
    fflush(stdout);
    dup2(outfd, 1);
    IN = bytes; INLEN = (size_t) n; KIND = kind; LABEL = "replay";
    bool ok;
    if (vf_ref_decode(bytes, (size_t) n, kind, 255, &R) == VR_OK) {
        R.bytes = bytes; R.len = (size_t) n; R.root_kind = kind;
        D = &R;
        LONGDOC = n > 3000;
        ok = run_valid_once();
    } else {
        init_live(3);
        ok = protocol_invalid();
        vf_live_free(&L);
    }
    fflush(stdout);
    dup2(saved, 1);
    if (!ok) { printf("replay: %s\nVIOLATION property=%s replay=%s\n", why, vf_g.prop, vf_g.replay); exit(VF_EXIT_VIOLATION); }
    printf("replay: passes\n");
    exit(VF_EXIT_OK);
}

int main(int argc, char **argv)
{
    vf_main_init(argc, argv, "text", ctr_names);
    P_C13 = !strcmp(vf_g.prop, "C13"); P_C14 = !strcmp(vf_g.prop, "C14");
    if (!P_C13 && !P_C14) vf_die("text decides C13 and C14");
    N_DOC = vf_g.thorough ? (P_C14 ? 4 : 3) : 2; N_DOC_PLAIN = vf_g.thorough ? 7 : 5;
    if (P_C13) N_DOC_PLAIN = vf_g.thorough ? 6 : 4;
    const char *e;
    if ((e = getenv("VERIF_N"))) N_DOC = atoi(e);
    if ((e = getenv("VERIF_NP"))) N_DOC_PLAIN = atoi(e);
    if (vf_g.replay) replay_main();
    int deaths = vf_run_workers(worker);
    static char bound[1600];
    snprintf(bound, sizeof bound,
             "every valid object- and array-rooted document with <= %d value tokens over 12 printable leaf classes (int 1.., INT64_MIN, doubles incl. -1e308 = 316 characters, "
             "strings incl. empty and embedded NUL, bytes of 0/3/40, booleans) and with <= %d value tokens over {int, bytes, {}, []} (all separator contexts), names incl. one with an "
             "embedded NUL; 40 documents with string / bytes / name payloads of 127..66000 bytes (capacities within 3 of every token boundary); single-value carriers {\"A\":v} / [v] for integers +-2^k+d (k<64, |d|<=2), "
             "doubles with every %dth top-16-bit pattern x 2 mantissa patterns plus 12 special patterns (NaN, infinities, -0.0, subnormals, DBL_MAX), every byte value 0..255 inside a "
             "string, a name and a bytes value, every string / bytes / name length 0..%d%s",
             N_DOC, N_DOC_PLAIN, vf_g.thorough ? 8 : 128, vf_g.thorough ? 2050 : 270,
             P_C13 ? "; each x EVERY capacity 0..need+3 x nice{false,true} on an exact-size heap destination, NULL query with 3 stale sizes; every INVALID input among the framed hostile token "
                     "sequences and the one-deviation mutants of small documents x capacities {NULL,0,1,16,4096}"
                   : "; to_string with ample capacity and captured stdout of binson_parser_print, both compared byte for byte with the reference renderer");
    static const char *const assumptions[] = {
        "doubles are rendered by the C library's printf(\"%f\") in both the library and the reference renderer, as the property states",
        "the size protocol is checked for self-consistency (independent of the rendering oracle); the text oracle is C14's",
        "ASan (gcc 12) detects any store outside the exact-size destination block"
    };
    static const int must13[] = { CT_DOCS, CT_TOO_SMALL, CT_FITS, CT_EXACT_FIT, CT_NULLQ, CT_INVALID_INPUTS, CT_INVALID_RUNS };
    static const int must14[] = { CT_DOCS, CT_PRINT_RUNS, CT_TEXT_BYTES, CT_WITH_EMPTY_CONTAINER, CT_SIBLING_AFTER_CONTAINER };
    vf_evidence_spec es;
    memset(&es, 0, sizeof es);
    es.c_states = P_C13 ? CT_STATES : CT_DOCS; es.c_transitions = CT_RUNS; es.c_validated = CT_RUNS;
    es.bound = bound;
    es.rule = "grammar-directed exhaustive document enumeration x exhaustive capacity enumeration; states = (document, capacity) pairs (C13) / documents (C14), transitions = real to_string / print executions";
    es.assumptions = assumptions; es.nassumptions = 3;
    if (P_C13) { es.must_be_nonzero = must13; es.n_must = 7; } else { es.must_be_nonzero = must14; es.n_must = 5; }
    return vf_finish(&es, deaths);
}
