/* api.c - explicit-state exploration of the WHOLE public parser API on hostile
 * inputs. Decides
 *   C01  parser memory safety            (ASan/UBSan + span bounds on every transition)
 *   C09  errors latch                    (one-step invariant on every transition out of an error state; + writer)
 *   C12  nothing carried over            (image after init/reset/verify == image of a fresh parser; + writer)
 *   C16  termination / linear work       (token-callback count per call vs bytes advanced; CPU watchdog; + writer)
 * Inputs: every token sequence of <= L tokens over the hostile alphabet (framed
 * as object, framed as array, unframed), all one-deviation mutants of all small
 * valid documents, nesting towers around every limit.
 * For each input x {init_object, init_array} x max_depth x prior-garbage fill:
 * breadth-first search to a FIXPOINT over all sequences of 23 API operations. */
#include "../lib/vf_util.h"
#include "../lib/vf_ref.h"
#include "../lib/vf_gen.h"
#include "../lib/vf_run.h"
#include "../lib/vf_snap.h"

enum {
    CT_INPUTS, CT_CONFIGS, CT_STATES, CT_TRANS, CT_ERRSTATE_TRANS, CT_INIT_REJECTED, CT_INIT_ACCEPTED, CT_MERGED_FILL,
    CT_E_RANGE, CT_E_FORMAT, CT_E_NULL, CT_E_STATE, CT_E_WRONGTYPE, CT_E_MAXOBJ, CT_E_MAXARR,
    CT_SPANS_CHECKED, CT_REINIT_CHECKS, CT_REINIT_OTHER_BUFFER, CT_CB_CALLS, CT_CB_MAXRATIO, CT_LOOKUPS, CT_MAXSTATES,
    CT_TOWER_RUNS, CT_MUTANTS, CT_IGNORED_OTHER_PROP, CT_OBS_CALLS, CT_STALE_ONLY, CT_GETTER_WRITES, CT_CBMODE_CONFIGS,
    CT_W_SEQS, CT_W_RUNS, CT_W_CALLS, CT_W_OVERFLOW_RUNS, CT_W_FIT_RUNS, CT_W_FALSE_CALLS, CT_W_ERR_RANGE, CT_W_ERR_FORMAT, CT_W_ERR_NULL,
    CT_W_REINIT_CHECKS, CT_W_STATES
};
static const char *const ctr_names[VF_NCTR] = {
    "inputs", "input_configurations_explored", "states", "transitions", "transitions_from_error_states", "init_rejected", "init_accepted",
    "garbage_fill_configs_merged_by_equal_image", "reached_error_RANGE", "reached_error_FORMAT", "reached_error_NULL", "reached_error_STATE",
    "reached_error_WRONG_TYPE", "reached_error_MAX_DEPTH_OBJECT", "reached_error_MAX_DEPTH_ARRAY", "returned_spans_bounds_checked",
    "reinit_image_comparisons_same_buffer", "reinit_image_comparisons_other_buffer", "callback_invocations", "max_callbacks_minus_2x_bytes_advanced",
    "field_lookups", "max_states_one_configuration", "tower_runs", "mutant_inputs", "mismatches_left_to_other_property", "observer_getter_calls",
    "reinit_images_differing_only_in_unobservable_bytes", "getters_that_wrote_into_the_parser_object", "configurations_with_an_api_using_error_raising_callback",
    "writer_sequences", "writer_runs_seq_x_capacity", "writer_calls", "writer_overflow_runs", "writer_fitting_runs", "writer_calls_returning_false",
    "writer_reached_error_RANGE", "writer_reached_error_FORMAT", "writer_reached_error_NULL", "writer_reinit_checks", "writer_states"
};
#include "wexp.h"

static int P_C01, P_C09, P_C12, P_C16;

enum {
    OP_INIT_OBJ, OP_INIT_ARR, OP_RESET, OP_VERIFY, OP_NEXT, OP_NEXT_ENS_INT, OP_NEXT_ENS_OBJ, OP_INTO_OBJ, OP_INTO_ARR, OP_LEAVE_OBJ, OP_LEAVE_ARR,
    OP_GET_NAME, OP_GET_RAW, OP_TOSTR_NULL, OP_TOSTR_TINY, OP_TOSTR_AMPLE, OP_PRINT,
    OP_FIELD_A, OP_FIELD_B, OP_FIELD_EMPTY, OP_FIELDZ_A, OP_FIELD_LONG, OP_ENSURE_A_INT, OP_FIELD_NULL, NOPS,
    OP_OTHERBUF = NOPS      /* pseudo operation (C12 only): init_object / init_array on each of 7 OTHER buffers, compared with a fresh parser */
};
static const char *const opname[NOPS + 1] = {
    "init_object", "init_array", "reset", "verify", "next", "next_ensure(INTEGER)", "next_ensure(OBJECT)", "go_into_object", "go_into_array",
    "leave_object", "leave_array", "get_name", "get_raw", "to_string(NULL)", "to_string(cap=3)", "to_string(cap=4096)", "print",
    "field_with_length(\"a\")", "field_with_length(\"b\")", "field_with_length(\"\")", "field(\"a\")", "field_with_length(300 x 0xfe)", "field_ensure(\"a\",INTEGER)",
    "field_with_length(NULL)", "init_on_other_buffers"
};
static bool is_lookup(int op) { return op >= OP_FIELD_A && op <= OP_ENSURE_A_INT; }
static bool is_reinit(int op) { return op <= OP_VERIFY; }
static bool is_verifylike(int op) { return op >= OP_TOSTR_NULL && op <= OP_PRINT; }

/* what an application knows about where it is: the containers it entered */
typedef struct { int8_t unknown, sp, fresh; int8_t st[9]; int8_t kind; /* what the object was last initialised as: 0 object, 1 array (the application knows; the private type field is not consulted) */ } shadow;
static inline void sh_clear(shadow *sh) { int8_t k = sh->kind; memset(sh, 0, sizeof *sh); sh->kind = k; }

static vf_live L;
static int MD, FILL, KIND0;                 /* current configuration */
static const uint8_t *IN; static size_t INLEN; static const char *INLABEL;
static vf_set SET;
static size_t SET_REC;
static uint32_t *PARENT; static uint8_t *OPOF; static size_t PCAP;
static uint8_t *BADSTATE;        /* states whose observers already failed are reported once and not expanded */
static uint64_t cb_count; static size_t cb_maxused;
static char *tostr_buf;                     /* 4096-byte heap block */

/* CBMODE 1: the user callback itself uses the API on the parser it is called for - it asks for the current name at every
 * token, which raises BINSON_ERROR_STATE where there is none (inside arrays, before the first field). An error raised
 * this way in the middle of a call is an error like any other: it must still be set when the call returns (C09). */
static int CBMODE;      /* declared before describe_case() uses it */
static int cb_raised;
static int user_ctx;      /* what the application hands to its callback */
static void count_cb(binson_parser *p, uint16_t ns, void *ctx)
{
    (void) ns; (void) ctx;
    cb_count++;
    if (p->buffer_used > cb_maxused) cb_maxused = p->buffer_used;
    if (CBMODE == 4) {
        /* re-entrant rendering: a stateless application callback asks for the size of the text of the SAME parser at every token it is
         * called for (to_string rewinds the parser and takes the callback slot). Whatever that does to the traversal in progress, every
         * call must still return (C16); nothing else is checked in this mode */
        size_t z = 0;
        (void) binson_parser_to_string(p, NULL, &z, false);
        return;
    }
    if (CBMODE && cb_count == (uint64_t) CBMODE) {     /* at exactly ONE token of the call (the CBMODE-th): a later callback must not re-raise what the library may have lost */
        binson_err before = p->error_flags;
        (void) binson_parser_get_name(p);
        if (before == BINSON_ERROR_NONE && p->error_flags != BINSON_ERROR_NONE) cb_raised = 1;
    }
}

/* ---- other buffers B for "reuse on a different buffer" (C12) */
#define NB 7
static const struct { const char *hex; } BSET[NB] = {
    { "4041" }, { "4243" }, { "40140161100141" }, { "424042434143" }, { "4014016142401401621001414341" }, { "40" }, { "401401611041" }
};
static uint8_t *Bbuf[NB]; static size_t Blen[NB];
typedef struct { bool ret; vf_snap img; } fresh_t;
static fresh_t Bfresh[NB][2];               /* per kind, for the current MD */
static int Bfresh_md = -1;

/* ---- context for the fatal handler / replays */
static size_t cur_state; static int cur_in_bfs; static uint8_t cur_hist[8192]; static int cur_nhist; static int cur_op = -1;
static int cur_tower = 0;
static int history_of(size_t s, uint8_t *out, int cap)
{
    int n = 0;
    while (s != 0) { if (n == cap) vf_die("history too long"); out[n++] = OPOF[s]; s = PARENT[s]; }
    for (int i = 0; i < n / 2; i++) { uint8_t t = out[i]; out[i] = out[n - 1 - i]; out[n - 1 - i] = t; }
    return n;
}
static void describe_case(vf_str *o, const uint8_t *hist, int nh, int failing)
{
    vf_str_printf(o, "kind: parser\ninit: %s\nmax_depth: %d\nfill: %d\ncallback_mode: %d\ninput_hex: ", KIND0 == VK_OBJ ? "object" : "array", MD, FILL, CBMODE);
    if (INLEN <= 200000) vf_str_hex(o, IN, INLEN); else { vf_str_hex(o, IN, 64); vf_str_printf(o, "...(%zu bytes, see input_label)", INLEN); }
    vf_str_printf(o, "\ninput_label: %s\ninput_len: %zu\nops:", INLABEL ? INLABEL : "", INLEN);
    for (int i = 0; i < nh; i++) vf_str_printf(o, " %d", hist[i]);
    if (failing >= 0) vf_str_printf(o, " %d", failing);
    vf_str_printf(o, "\nops_readable:");
    for (int i = 0; i < nh; i++) vf_str_printf(o, " %s", opname[hist[i]]);
    if (failing >= 0) vf_str_printf(o, " %s", opname[failing]);
    vf_str_printf(o, "\n");
}
static int in_writer_phase;
static void fatal_describe(vf_str *o)
{
    if (in_writer_phase) { wexp_describe(o); return; }
    if (cur_in_bfs) cur_nhist = history_of(cur_state, cur_hist, 8192);
    describe_case(o, cur_hist, cur_nhist, cur_op);
}

typedef struct { char why[240]; char sig[100]; const char *prop; } mismatch;

static bool in_buffer(const uint8_t *p, size_t n)
{
    const uint8_t *b = vf_live_bufptr(&L);
    return p >= b && p <= b + L.len && n <= (size_t) (b + L.len - p);
}

static void fresh_image(const uint8_t *buf, size_t len, int kind, int md, bool do_verify, fresh_t *out, binson_err *err)
{
    vf_live F;
    F.p = (binson_parser *) vf_xmalloc(sizeof(binson_parser));
    F.st = (binson_state *) vf_xmalloc(sizeof(binson_state) * (size_t) md);
    memset(F.p, 0, sizeof(binson_parser));
    memset(F.st, 0, sizeof(binson_state) * (size_t) md);
    F.p->state = F.st; F.p->max_depth = (uint_fast8_t) md; F.max_depth = md; F.buf = NULL; F.len = len;
    out->ret = kind == VK_OBJ ? binson_parser_init_object(F.p, buf, len) : binson_parser_init_array(F.p, buf, len);
    if (do_verify) out->ret = binson_parser_verify(F.p);
    if (err) *err = F.p->error_flags;
    vf_snap_save(&out->img, &F);
    free(F.p); free(F.st);
}

/* field-wise comparison of the live parser with a fresh image (pointers into
 * state[] are compared as indices since the two objects live elsewhere) */
static bool same_as_fresh(const fresh_t *f, const uint8_t *buf, size_t len, mismatch *mm)
{
    const binson_parser *a = L.p, *b = &f->img.p;
#define CMP(fld, fmt) if (a->fld != b->fld) { snprintf(mm->why, sizeof mm->why, "field " #fld " = " fmt " but a fresh parser has " fmt, a->fld, b->fld); snprintf(mm->sig, sizeof mm->sig, "field-" #fld); return false; }
    CMP(type, "%u") CMP(depth, "%u") CMP(max_depth, "%u") CMP(buffer_size, "%zu") CMP(buffer_used, "%zu") CMP(error_flags, "%d")
#undef CMP
    if (a->buffer != buf || a->buffer_size != len) { snprintf(mm->why, sizeof mm->why, "buffer/size not installed"); snprintf(mm->sig, sizeof mm->sig, "field-buffer"); return false; }
    if (a->cb != NULL || a->cb_context != NULL) {
        /* init clears cb; reset / verify leave whatever the harness installed */
    }
    long ia = a->current_state ? (long) (a->current_state - a->state) : -1, ib = -1;
    /* the fresh image was saved from an object whose state array is gone: recompute index from flags of the image itself */
    ib = 0; /* after init/reset/verify the current state is always level 0 */
    if (ia != ib) { snprintf(mm->why, sizeof mm->why, "current_state index %ld, fresh parser has %ld", ia, ib); snprintf(mm->sig, sizeof mm->sig, "field-current_state"); return false; }
    if (memcmp(L.st, f->img.st, sizeof(binson_state) * (size_t) L.max_depth)) {
        int lvl = 0;
        for (; lvl < L.max_depth; lvl++) if (memcmp(&L.st[lvl], &f->img.st[lvl], sizeof(binson_state))) break;
        /* raw bytes differ: only what a later call can observe counts (flags, array_depth, type, name, the value READ THROUGH
         * the type); stale bytes of the value union under another type and padding do not */
        bool observable = false;
        for (int k = 0; k < L.max_depth && !observable; k++) {
            const binson_state *x = &L.st[k], *y = &f->img.st[k];
            if (x->flags != y->flags || x->array_depth != y->array_depth || x->current_type != y->current_type || x->current_name.bptr != y->current_name.bptr ||
                (x->current_name.bptr && x->current_name.bsize != y->current_name.bsize)) { observable = true; lvl = k; }
            else switch (x->current_type) {
                case BINSON_TYPE_STRING: case BINSON_TYPE_BYTES: if (x->current_value.string_value.bptr != y->current_value.string_value.bptr || x->current_value.string_value.bsize != y->current_value.string_value.bsize) { observable = true; lvl = k; } break;
                case BINSON_TYPE_INTEGER: case BINSON_TYPE_DOUBLE: if (x->current_value.integer_value != y->current_value.integer_value) { observable = true; lvl = k; } break;
                case BINSON_TYPE_BOOLEAN: if (x->current_value.bool_value != y->current_value.bool_value) { observable = true; lvl = k; } break;
                default: break;
            }
        }
        if (!observable) { vf_count(CT_STALE_ONLY, 1); return true; }
        snprintf(mm->why, sizeof mm->why, "state[%d] differs from a fresh parser's (flags %x vs %x, array_depth %u vs %u, type %d vs %d, name offset %lld vs %lld)", lvl,
                 (unsigned) L.st[lvl].flags, (unsigned) f->img.st[lvl].flags, (unsigned) L.st[lvl].array_depth, (unsigned) f->img.st[lvl].array_depth,
                 (int) L.st[lvl].current_type, (int) f->img.st[lvl].current_type, (long long) vf_off(&L, L.st[lvl].current_name.bptr),
                 (long long) vf_off(&L, f->img.st[lvl].current_name.bptr));
        snprintf(mm->sig, sizeof mm->sig, "state-array");
        return false;
    }
    return true;
}

static fresh_t FR_init[2], FR_verify[2];
static binson_err FR_init_err[2], FR_verify_err[2];
static bool check_other_buffers(mismatch *mm);

/* Observers: the typed getters, called once per reached STATE (they are pure: that is checked here too).
 * In an error state they must return neutral results (C09); spans must lie inside the buffer (C01). */
static bool observe_state(mismatch *mm, bool counting, const char *after)
{
    binson_parser *p = L.p;
    binson_err e1 = p->error_flags;
    mm->prop = NULL;
    /* observers: typed getters. They must not modify anything; in an error state they return neutral results. */
    {
        vf_snap before;
        vf_snap_save(&before, &L);
        binson_type t = binson_parser_get_type(p);
        bbuf *s = binson_parser_get_string_bbuf(p), *b = binson_parser_get_bytes_bbuf(p);
        int64_t iv = binson_parser_get_integer(p);
        bool bv = binson_parser_get_boolean(p);
        double dv = binson_parser_get_double(p);
        /* probes live in exact-size heap blocks: reading past the terminator is an ASan report */
        static char *probe_a, *probe_x;
        if (!probe_a) { probe_a = (char *) vf_xmalloc(2); probe_a[0] = 'a'; probe_a[1] = 0; probe_x = (char *) vf_xmalloc(2); probe_x[0] = 'x'; probe_x[1] = 0; }
        bool se = binson_parser_string_equals(p, probe_a);
        se = binson_parser_string_equals(p, probe_x) || se;
        if (s && s->bptr && in_buffer(s->bptr, s->bsize)) {
            /* continuation probe: the current string value followed by the document bytes after it up to the end of the buffer and one more
             * character (cut at the first 0x00): a comparison that runs on the argument's length walks off the end of the input buffer */
            const uint8_t *end = vf_live_bufptr(&L) + L.len;
            size_t n = (size_t) (end - s->bptr), k = 0;
            char *probe_c = (char *) vf_xmalloc(n + 2);
            while (k < n && s->bptr[k]) { probe_c[k] = (char) s->bptr[k]; k++; }
            if (k == n) probe_c[k++] = 'x';
            probe_c[k] = 0;
            (void) binson_parser_string_equals(p, probe_c);     /* the answer is C03's business; here only the reads matter (ASan) */
            if (counting) vf_count(CT_OBS_CALLS, 1);
            free(probe_c);
        }
        (void) binson_parser_get_depth(p);
        if (counting) vf_count(CT_OBS_CALLS, 8);
        if (e1 != BINSON_ERROR_NONE) {
            uint64_t dbits; memcpy(&dbits, &dv, 8);
            if (t != BINSON_TYPE_NONE || s || b || iv != 0 || bv || dbits != 0 || se) {
                snprintf(mm->why, sizeof mm->why, "in error state %s after %s a getter is not neutral: type=%s string=%d bytes=%d int=%lld bool=%d double_bits=%llx equals=%d",
                         vf_err_name(e1), after, vf_type_name(t), s != NULL, b != NULL, (long long) iv, bv, (unsigned long long) dbits, se);
                snprintf(mm->sig, sizeof mm->sig, "latch:getter-not-neutral");
                mm->prop = "C09";
                if (P_C09) return false;
            }
        } else {
            if (s) { if (counting) vf_count(CT_SPANS_CHECKED, 1); if (!in_buffer(s->bptr, s->bsize)) { snprintf(mm->why, sizeof mm->why, "string span outside the input buffer after %s", after); snprintf(mm->sig, sizeof mm->sig, "span-outside:string"); mm->prop = "C01"; if (P_C01) return false; } }
            if (b) { if (counting) vf_count(CT_SPANS_CHECKED, 1); if (!in_buffer(b->bptr, b->bsize)) { snprintf(mm->why, sizeof mm->why, "bytes span outside the input buffer after %s", after); snprintf(mm->sig, sizeof mm->sig, "span-outside:bytes"); mm->prop = "C01"; if (P_C01) return false; } }
        }
        vf_snap img_after;
        vf_snap_save(&img_after, &L);
        if (memcmp(&before, &img_after, vf_snap_size(L.max_depth))) {
            /* allowed by C01 (the parser object is the library's to write); recorded only */
            if (counting) vf_count(CT_GETTER_WRITES, 1);
        }
    }
    return true;
}

/* Executes one op on the live parser holding the source state; runs all
 * oracles. sh is advanced. Returns false with the FIRST mismatch of the
 * property being decided. */
static bool do_op(shadow *sh, int op, mismatch *mm, bool counting)
{
    binson_parser *p = L.p;
    const uint8_t *buf = vf_live_bufptr(&L);
    bool err0 = p->error_flags != BINSON_ERROR_NONE;
    binson_err e0 = p->error_flags;
    size_t used0 = p->buffer_used;
    binson_type type0 = BINSON_TYPE_NONE;
    if (!err0 && p->current_state) type0 = p->current_state->current_type;
    if (op == OP_INIT_OBJ) sh->kind = 0; else if (op == OP_INIT_ARR) sh->kind = 1;
    const int kind0 = sh->kind;
    bool ret = false, retptr_null = true;
    bbuf raw = { 0, NULL };
    size_t ts;
    mm->why[0] = 0; mm->sig[0] = 0; mm->prop = NULL;
    if (op == OP_OTHERBUF) {
        cur_op = op;
        if (!check_other_buffers(mm)) { mm->prop = "C12"; return !P_C12; }
        return true;
    }
    cb_count = 0; cb_maxused = used0; cb_raised = 0;
    if (!is_verifylike(op)) { p->cb = count_cb; p->cb_context = NULL; }
    else { p->cb = count_cb; p->cb_context = &user_ctx; }     /* a user callback WITH a context is installed when to_string / print are called */
    vf_progress++;
    cur_op = op;
    vf_stack_paint();
    switch (op) {
    case OP_INIT_OBJ: ret = binson_parser_init_object(p, buf, L.len); break;
    case OP_INIT_ARR: ret = binson_parser_init_array(p, buf, L.len); break;
    case OP_RESET: ret = binson_parser_reset(p); break;
    case OP_VERIFY: ret = binson_parser_verify(p); break;
    case OP_NEXT: ret = binson_parser_next(p); break;
    case OP_NEXT_ENS_INT: ret = binson_parser_next_ensure(p, BINSON_TYPE_INTEGER); break;
    case OP_NEXT_ENS_OBJ: ret = binson_parser_next_ensure(p, BINSON_TYPE_OBJECT); break;
    case OP_INTO_OBJ: ret = binson_parser_go_into_object(p); break;
    case OP_INTO_ARR: ret = binson_parser_go_into_array(p); break;
    case OP_LEAVE_OBJ: ret = binson_parser_leave_object(p); break;
    case OP_LEAVE_ARR: ret = binson_parser_leave_array(p); break;
    case OP_GET_NAME: {
        bbuf *nm = binson_parser_get_name(p);
        retptr_null = nm == NULL;
        ret = nm != NULL;
        if (nm) {
            if (counting) vf_count(CT_SPANS_CHECKED, 1);
            if (!in_buffer(nm->bptr, nm->bsize)) {
                snprintf(mm->why, sizeof mm->why, "get_name span (offset %lld, size %zu) outside the input buffer of %zu bytes", (long long) (nm->bptr - buf), nm->bsize, L.len);
                snprintf(mm->sig, sizeof mm->sig, "span-outside:get_name"); mm->prop = "C01";
            }
        }
        break;
    }
    case OP_GET_RAW:
        ret = binson_parser_get_raw(p, &raw);
        if (ret) {
            if (counting) vf_count(CT_SPANS_CHECKED, 1);
            if (!in_buffer(raw.bptr, raw.bsize)) {
                snprintf(mm->why, sizeof mm->why, "get_raw span (offset %lld, size %zu) outside the input buffer of %zu bytes", (long long) (raw.bptr - buf), raw.bsize, L.len);
                snprintf(mm->sig, sizeof mm->sig, "span-outside:get_raw"); mm->prop = "C01";
            }
        }
        break;
    case OP_TOSTR_NULL: ts = 12345; ret = binson_parser_to_string(p, NULL, &ts, false); break;
    case OP_TOSTR_TINY: { char *t = (char *) vf_xmalloc(3); ts = 3; ret = binson_parser_to_string(p, t, &ts, true); free(t); break; }
    case OP_TOSTR_AMPLE: ts = 4096; ret = binson_parser_to_string(p, tostr_buf, &ts, false); break;
    case OP_PRINT: ret = binson_parser_print(p); break;
    case OP_FIELD_A: { char *q = (char *) vf_xmalloc(1); q[0] = 'a'; ret = binson_parser_field_with_length(p, q, 1); free(q); break; }
    case OP_FIELD_B: { char *q = (char *) vf_xmalloc(1); q[0] = 'b'; ret = binson_parser_field_with_length(p, q, 1); free(q); break; }
    case OP_FIELD_EMPTY: { char *q = (char *) vf_xmalloc(1); ret = binson_parser_field_with_length(p, q + 1, 0); free(q); break; }
    case OP_FIELDZ_A: { char *q = (char *) vf_xmalloc(2); q[0] = 'a'; q[1] = 0; ret = binson_parser_field(p, q); free(q); break; }
    /* a query longer than any document here that sorts after every name it meets: each name on the way is compared with it */
    case OP_FIELD_LONG: { char *q = (char *) vf_xmalloc(300); memset(q, 0xfe, 300); ret = binson_parser_field_with_length(p, q, 300); free(q); break; }
    case OP_ENSURE_A_INT: { char *q = (char *) vf_xmalloc(2); q[0] = 'a'; q[1] = 0; ret = binson_parser_field_ensure(p, q, BINSON_TYPE_INTEGER); free(q); break; }
    case OP_FIELD_NULL: ret = binson_parser_field_with_length(p, NULL, 0); break;
    default: vf_die("bad op");
    }
    (void) retptr_null;
    if (CBMODE == 4) {
        /* re-entrant rendering mode: the call returned - that is all C16 asks here. What the application may still assume about its
         * position is nothing. */
        int8_t k = sh->kind;
        memset(sh, 0, sizeof *sh); sh->kind = k; sh->unknown = 1;
        mm->prop = NULL;
        return true;
    }
    binson_err e1 = p->error_flags;
    /* the parser object must not be left holding a pointer into a stack frame that no longer exists (the library's own
     * callback context lives on its stack during to_string / print): the next call would run on dead memory */
    {
        volatile char here;
        uintptr_t top = (uintptr_t) &here, ctx = (uintptr_t) p->cb_context;
        if (p->cb && p->cb_context && ctx < top && top - ctx < (1u << 20)) {      /* any installed callback (the library's own or the user's) would be handed it; a context nobody will call is harmless */
            snprintf(mm->why, sizeof mm->why, "after %s the parser still holds cb_context pointing %zu bytes below the caller's frame, into a dead stack frame (cb %s)", opname[op],
                     (size_t) (top - ctx), p->cb == NULL ? "NULL" : (p->cb == count_cb ? "= the caller's" : "= a library-internal function"));
            snprintf(mm->sig, sizeof mm->sig, "dangling-stack-context:%s", opname[op]);
            mm->prop = P_C12 ? "C12" : "C01";      /* also C12: whatever the parser is used for next will run on that stale context */
            if (P_C01 || P_C12) return false;
            mm->prop = NULL;
        }
        if (is_verifylike(op) && p->cb == count_cb && p->cb_context != NULL && p->cb_context != (void *) &user_ctx) {
            snprintf(mm->why, sizeof mm->why, "after %s the application's callback is installed again but with a context the application never supplied", opname[op]);
            snprintf(mm->sig, sizeof mm->sig, "foreign-callback-context:%s", opname[op]);
            mm->prop = "C01";
            if (P_C01) return false;
            mm->prop = NULL;
        }
        if (e1 == BINSON_ERROR_NONE && (p->state != L.st || (p->current_state && (p->current_state < L.st || p->current_state >= L.st + L.max_depth)))) {
            snprintf(mm->why, sizeof mm->why, "after %s the parser's state pointers no longer point into the caller-supplied state array", opname[op]);
            snprintf(mm->sig, sizeof mm->sig, "state-pointer-escaped:%s", opname[op]);
            mm->prop = "C01";
            if (P_C01) return false;
            mm->prop = NULL;
        }
    }
    if (counting) {
        vf_count(CT_TRANS, 1);
        vf_count(CT_CB_CALLS, cb_count);
        if (err0) vf_count(CT_ERRSTATE_TRANS, 1);
        if (is_lookup(op)) vf_count(CT_LOOKUPS, 1);
        if (e1 != e0) {
            static const int map[10] = { -1, CT_E_RANGE, CT_E_FORMAT, -1, -1, CT_E_NULL, CT_E_STATE, CT_E_WRONGTYPE, CT_E_MAXOBJ, CT_E_MAXARR };
            if ((int) e1 > 0 && (int) e1 < 10 && map[e1] >= 0) vf_count(map[e1], 1);
        }
    }
    if (mm->prop && !strcmp(mm->prop, vf_g.prop)) return false;
    mm->prop = NULL; mm->why[0] = 0;

    /* ---------------- C09: an error raised from inside the user callback during this call must survive the call */
    if (cb_raised && e1 == BINSON_ERROR_NONE) {
        snprintf(mm->why, sizeof mm->why, "during %s the token callback raised an error (get_name where there is no name) but error_flags is NONE when the call returns (ret=%d)", opname[op], ret);
        snprintf(mm->sig, sizeof mm->sig, "latch:error-raised-in-callback-lost:%s", opname[op]);
        mm->prop = "C09";
        if (P_C09) return false;
        mm->prop = NULL;
    }
    /* ---------------- C09: the error latches */
    if (err0 && !is_reinit(op) && !is_verifylike(op)) {
        if (ret || e1 == BINSON_ERROR_NONE) {
            snprintf(mm->why, sizeof mm->why, "in error state %s, %s returned %s and left error_flags=%s", vf_err_name(e0), opname[op], ret ? "true/non-NULL" : "false",
                     vf_err_name(e1));
            snprintf(mm->sig, sizeof mm->sig, "latch:%s:%s", opname[op], ret ? "ret-true" : "error-cleared");
            mm->prop = "C09";
            if (P_C09) return false;
        }
    }
    /* ---------------- C16: work linear in the bytes moved over */
    if (!is_verifylike(op)) {
        size_t adv = cb_maxused - used0;
        if (op == OP_VERIFY || op == OP_RESET || is_reinit(op)) adv = cb_maxused;   /* these restart at 0 */
        if (cb_count > 2 * adv + 3) {
            snprintf(mm->why, sizeof mm->why, "%s: %llu token callbacks while advancing over %zu bytes", opname[op], (unsigned long long) cb_count, adv);
            snprintf(mm->sig, sizeof mm->sig, "work:%s", opname[op]);
            mm->prop = "C16";
            if (P_C16) return false;
        }
        if (counting && cb_count > 2 * adv) vf_max(CT_CB_MAXRATIO, cb_count - 2 * adv);
        /* ... and the call must KEEP what it moved over: the cursor ends where the scan got to, except that a failed
         * lookup may hand back the one name token it overshot */
        if (!is_reinit(op) && e1 == BINSON_ERROR_NONE && cb_maxused > p->buffer_used) {
            size_t back = cb_maxused - p->buffer_used;
            size_t allowed = (is_lookup(op) && !ret) ? vf_name_token_size_at(&L, p->buffer_used) : 0;
            if (back > allowed) {
                snprintf(mm->why, sizeof mm->why, "%s scanned up to offset %zu but left the cursor at %zu: %zu bytes will be processed again (a failed lookup may re-read only the one name it overshot: %zu bytes)",
                         opname[op], cb_maxused, p->buffer_used, back, allowed);
                snprintf(mm->sig, sizeof mm->sig, "rewind:%s", opname[op]);
                mm->prop = "C16";
                if (P_C16) return false;
            }
        }
    }
    /* ---------------- C09: to_string / print on a document that verify rejects run into that error themselves; when they return, the
     * error indicator must (still) be set - their false return alone says nothing (a size query on a valid document returns false too) */
    if (is_verifylike(op) && !CBMODE && FR_init[kind0].ret && !FR_verify[kind0].ret && e1 == BINSON_ERROR_NONE) {
        snprintf(mm->why, sizeof mm->why, "%s on a document that verify rejects (%s) returned %d and left error_flags NONE: the failure cannot be seen by a check after the call",
                 opname[op], vf_err_name(FR_verify_err[kind0]), ret);
        snprintf(mm->sig, sizeof mm->sig, "latch:render-clears-error:%s", opname[op]);
        mm->prop = "C09";
        if (P_C09) return false;
    }
    /* ---------------- C12: init / reset / verify give a clean start (not compared while the error-raising callback is installed:
     * it changes what verify sees, by design) */
    if (is_reinit(op) && !CBMODE) {
        int k = kind0;
        const fresh_t *f = op == OP_VERIFY ? &FR_verify[k] : &FR_init[k];
        binson_err fe = op == OP_VERIFY ? FR_verify_err[k] : FR_init_err[k];
        if (counting) vf_count(CT_REINIT_CHECKS, 1);
        mismatch m2; m2.why[0] = 0;
        bool bad = false;
        if (ret != f->ret) { snprintf(m2.why, sizeof m2.why, "%s returned %d on a used parser, %d on a fresh one", opname[op], ret, f->ret); snprintf(m2.sig, sizeof m2.sig, "reinit:%s:ret", opname[op]); bad = true; }
        else if (e1 != fe) { snprintf(m2.why, sizeof m2.why, "%s left error %s on a used parser, %s on a fresh one", opname[op], vf_err_name(e1), vf_err_name(fe)); snprintf(m2.sig, sizeof m2.sig, "reinit:%s:err", opname[op]); bad = true; }
        else if (ret) {
            mismatch m3;
            if (!same_as_fresh(f, buf, L.len, &m3)) { snprintf(m2.why, sizeof m2.why, "after %s: %s", opname[op], m3.why); snprintf(m2.sig, sizeof m2.sig, "reinit:%s:%s", opname[op], m3.sig); bad = true; }
        }
        if (bad) {
            *mm = m2; mm->prop = "C12";
            if (P_C12) return false;
        }
    }
    /* ---------------- application-level shadow stack (enables lookups) */
    bool was_fresh = sh->fresh;
    if (op != OP_GET_NAME) sh->fresh = 0;
    if (is_reinit(op) || is_verifylike(op)) { sh_clear(sh); }
    else if (op == OP_GET_RAW && !(was_fresh && (type0 == BINSON_TYPE_OBJECT || type0 == BINSON_TYPE_ARRAY))) {
        /* get_raw on anything but a container that next / a lookup has JUST returned is outside the protocol: it
         * may enter and leave whatever follows, so the application no longer knows whether it is inside an object */
        if (sh->sp > 0 || ret) { sh_clear(sh); sh->unknown = 1; }
    }
    else if (ret && e1 == BINSON_ERROR_NONE) {
        switch (op) {
        case OP_INTO_OBJ: case OP_INTO_ARR: {
            int want = op == OP_INTO_OBJ ? 'O' : 'A';
            bool at_root = sh->sp == 0 && used0 == 0;
            /* "enter only a container that next or a lookup has JUST returned" */
            bool typed = was_fresh && type0 == (op == OP_INTO_OBJ ? BINSON_TYPE_OBJECT : BINSON_TYPE_ARRAY);
            bool rootkind = (kind0 == 0) == (op == OP_INTO_OBJ);
            if (sh->unknown) break;
            if (((at_root && rootkind) || (!at_root && sh->sp > 0 && typed)) && sh->sp < 9) sh->st[sh->sp++] = (int8_t) want;
            else { sh_clear(sh); sh->unknown = 1; }
            break;
        }
        case OP_LEAVE_OBJ: case OP_LEAVE_ARR: {
            int want = op == OP_LEAVE_OBJ ? 'O' : 'A';
            if (sh->unknown) break;
            if (sh->sp > 0 && sh->st[sh->sp - 1] == want) { sh->sp--; sh->st[sh->sp] = 0; if (sh->sp == 0) { sh_clear(sh); sh->unknown = 1; } }
            else { sh_clear(sh); sh->unknown = 1; }
            break;
        }
        case OP_NEXT: case OP_NEXT_ENS_INT: case OP_NEXT_ENS_OBJ: case OP_FIELD_A: case OP_FIELD_B: case OP_FIELD_EMPTY: case OP_FIELDZ_A: case OP_FIELD_LONG: case OP_ENSURE_A_INT:
            if (!sh->unknown) sh->fresh = 1;
            break;
        default: break;
        }
    }
    return true;
}

static bool op_enabled(const shadow *sh, int op)
{
    if (is_lookup(op) || op == OP_FIELD_NULL) return !sh->unknown && sh->sp > 0 && sh->st[sh->sp - 1] == 'O';
    return true;
}

static void alloc_live(void)
{
    vf_live_alloc(&L, IN, INLEN, MD, FILL);
}
static bool first_init(void)
{
    const uint8_t *buf = vf_live_bufptr(&L);
    cur_op = KIND0 == VK_OBJ ? OP_INIT_OBJ : OP_INIT_ARR;
    return KIND0 == VK_OBJ ? binson_parser_init_object(L.p, buf, L.len) : binson_parser_init_array(L.p, buf, L.len);
}
static uint64_t input_serial, fresh_serial; static int fresh_md;
static void compute_fresh(void)
{
    const uint8_t *buf = vf_live_bufptr(&L);
    if (fresh_serial == input_serial && fresh_md == MD) return;     /* depends on (input bytes, max_depth) only */
    fresh_serial = input_serial; fresh_md = MD;
    for (int k = 0; k < 2; k++) {
        fresh_image(buf, L.len, k == 0 ? VK_OBJ : VK_ARR, MD, false, &FR_init[k], &FR_init_err[k]);
        fresh_image(buf, L.len, k == 0 ? VK_OBJ : VK_ARR, MD, true, &FR_verify[k], &FR_verify_err[k]);
    }
    if (Bfresh_md != MD) {
        for (int b = 0; b < NB; b++) for (int k = 0; k < 2; k++) fresh_image(Bbuf[b], Blen[b], k == 0 ? VK_OBJ : VK_ARR, MD, false, &Bfresh[b][k], NULL);
        Bfresh_md = MD;
    }
}

/* Re-executes a history on a fresh parser. Returns -1 if all oracles hold, the index of the failing op,
 * -3 if the state right after the first init already fails an observer, -2 if an op is not enabled. */
static int run_history(const uint8_t *h, int n, mismatch *mm)
{
    alloc_live();
    compute_fresh();
    cur_in_bfs = 0; cur_nhist = 0;
    first_init();
    shadow sh;
    memset(&sh, 0, sizeof sh);
    sh.kind = KIND0 == VK_OBJ ? 0 : 1;
    int bad = -1;
    if (!observe_state(mm, false, KIND0 == VK_OBJ ? "init_object" : "init_array")) bad = -3;
    for (int i = 0; bad == -1 && i < n; i++) {
        if (!op_enabled(&sh, h[i])) { snprintf(mm->why, sizeof mm->why, "op %d (%s) not enabled", i, opname[h[i]]); bad = -2; break; }
        memcpy(cur_hist, h, (size_t) i); cur_nhist = i;
        if (!do_op(&sh, h[i], mm, false)) { bad = i; break; }
        if (h[i] != OP_OTHERBUF && !observe_state(mm, false, opname[h[i]])) { bad = i; break; }
    }
    vf_live_free(&L);
    return bad;
}

/* op < 0: the state right after the first init fails */
static void report(size_t from, int op, const mismatch *mm_in)
{
    mismatch mm_copy = *mm_in, *mm = &mm_copy;
    static uint8_t h[8200];
    int n = history_of(from, h, 8192);
    if (op >= 0) h[n] = (uint8_t) op;
    vf_live keep = L;
    for (int k = 0; k < 2; k++) {
        mismatch m2;
        int bad = run_history(h, op >= 0 ? n + 1 : 0, &m2);
        if (bad != (op >= 0 ? n : -3)) vf_die("violation did not reproduce on replay (%s | %s)", mm->why, m2.why);
        if (strcmp(m2.why, mm->why) && !strstr(mm->why, "[details vary from run to run")) {
            /* the same call fails on every replay but not with the same details: the library's behaviour depends on something other
             * than its inputs (uninitialised memory); reported under a description that is stable */
            size_t l = strlen(mm->why);
            snprintf(mm->why + l, sizeof mm->why - l, " [details vary from run to run with identical inputs]");
        }
    }
    L = keep;
    char sig[200];
    snprintf(sig, sizeof sig, "api:%s", mm->sig);
    vf_str b = { 0 };
    describe_case(&b, h, n, op);
    vf_str_printf(&b, "mismatch: %s\n", mm->why);
    vf_violation(sig, b.s);
    vf_str_free(&b);
}

/* C12: from the current live state, re-initialise on each other buffer B and compare with a fresh parser's image */
static bool check_other_buffers(mismatch *mm)
{
    vf_snap keep;
    vf_snap_save(&keep, &L);
    bool ok = true;
    for (int b = 0; b < NB && ok; b++)
        for (int k = 0; k < 2 && ok; k++) {
            bool r = k == 0 ? binson_parser_init_object(L.p, Bbuf[b], Blen[b]) : binson_parser_init_array(L.p, Bbuf[b], Blen[b]);
            vf_count(CT_REINIT_OTHER_BUFFER, 1);
            mismatch m3;
            if (r != Bfresh[b][k].ret) { snprintf(mm->why, sizeof mm->why, "init on other buffer %s returned %d, fresh parser %d", BSET[b].hex, r, Bfresh[b][k].ret); snprintf(mm->sig, sizeof mm->sig, "reinit-other:ret"); ok = false; }
            else if (L.p->error_flags != Bfresh[b][k].img.p.error_flags) { snprintf(mm->why, sizeof mm->why, "init on other buffer %s: error differs from a fresh parser", BSET[b].hex); snprintf(mm->sig, sizeof mm->sig, "reinit-other:err"); ok = false; }
            else if (r && !same_as_fresh(&Bfresh[b][k], Bbuf[b], Blen[b], &m3)) { snprintf(mm->why, sizeof mm->why, "init_%s on other buffer %s: %s", k ? "array" : "object", BSET[b].hex, m3.why); snprintf(mm->sig, sizeof mm->sig, "reinit-other:%s", m3.sig); ok = false; }
            vf_snap_load(&L, &keep);
        }
    return ok;
}

/* One configuration (input, first init kind, max_depth, prior fill).
 * Merging rule (sound because equal images have equal futures): a state whose image equals the image of a FRESH
 * zero-filled parser after the same successful (re-)initialisation is explored in the fill-0 / init_object
 * configuration of the same (input, max_depth); in the other configurations it is not expanded again. */
static void explore_config(void)
{
    alloc_live();
    compute_fresh();
    bool ok = first_init();
    bool primary = FILL == 0 && KIND0 == VK_OBJ;      /* (the CBMODE exploration runs in this configuration too) */
    vf_count(ok ? CT_INIT_ACCEPTED : CT_INIT_REJECTED, 1);
    size_t isz = vf_snap_size(MD), rec = isz + sizeof(shadow);
    vf_snap snap;
    mismatch mm;
    if (ok && !primary) {
        vf_count(CT_REINIT_CHECKS, 1);
        if (same_as_fresh(&FR_init[KIND0 == VK_OBJ ? 0 : 1], vf_live_bufptr(&L), L.len, &mm)) {
            vf_count(CT_MERGED_FILL, 1);
            vf_live_free(&L);
            return;
        }
        if (P_C12) {
            char sig[200];
            snprintf(sig, sizeof sig, "api:reinit:first-init:%s", mm.sig);
            vf_str b = { 0 };
            describe_case(&b, NULL, 0, -1);
            vf_str_printf(&b, "mismatch: after the first init over memory filled with 0x%02x: %s\n", FILL, mm.why);
            vf_violation(sig, b.s);
            vf_str_free(&b);
        } else vf_count(CT_IGNORED_OTHER_PROP, 1);
    }
    if (!ok && FILL != 0) {
        /* a rejected init: the fields a later successful reset does NOT rewrite (type, max_depth, buffer, buffer_size, state,
         * cb, cb_context) must not keep the prior garbage, or what happens after that reset depends on it */
        const fresh_t *f = &FR_init[KIND0 == VK_OBJ ? 0 : 1];
        const binson_parser *q = L.p, *z = &f->img.p;
        vf_count(CT_REINIT_CHECKS, 1);
        if (q->type != z->type || q->max_depth != z->max_depth || q->buffer_size != z->buffer_size || q->buffer != vf_live_bufptr(&L) || q->state != L.st ||
            q->cb != z->cb || q->cb_context != z->cb_context || q->error_flags != z->error_flags) {
            if (P_C12 || P_C01) {
                vf_str b = { 0 };
                describe_case(&b, NULL, 0, -1);
                vf_str_printf(&b, "mismatch: after an init that REJECTED the buffer, over memory filled with 0x%02x, a field that survives a later reset still holds the garbage (type %u/%u cb %s cb_context %s error %d/%d): a fresh parser has it cleared\n",
                              FILL, (unsigned) q->type, (unsigned) z->type, q->cb == z->cb ? "ok" : "GARBAGE", q->cb_context == z->cb_context ? "ok" : "GARBAGE", (int) q->error_flags, (int) z->error_flags);
                vf_violation("api:reinit:rejected-init-keeps-garbage", b.s);
                vf_str_free(&b);
            } else vf_count(CT_IGNORED_OTHER_PROP, 1);
        }
    }
    L.p->cb = count_cb; L.p->cb_context = NULL;
    vf_snap_save(&snap, &L);
    vf_count(CT_CONFIGS, 1);
    if (rec != SET_REC) { if (SET_REC) vf_set_free(&SET); vf_set_init(&SET, rec); SET_REC = rec; } else vf_set_clear(&SET);
    uint8_t *key = (uint8_t *) alloca(rec);
    shadow sh0;
    memset(&sh0, 0, sizeof sh0);
    sh0.kind = KIND0 == VK_OBJ ? 0 : 1;
    memcpy(key, &snap, isz); memcpy(key + isz, &sh0, sizeof sh0);
    bool isnew;
    vf_set_insert(&SET, key, &isnew);
    cur_in_bfs = 1; cur_state = 0; cur_op = -1;
    if (!observe_state(&mm, true, KIND0 == VK_OBJ ? "init_object" : "init_array")) report(0, -1, &mm);
    bool root_bad = false;
    for (size_t s = 0; s < SET.n; s++) {
        shadow shs;
        memcpy(&shs, vf_set_at(&SET, s) + isz, sizeof shs);
        if (s == 0 ? root_bad : BADSTATE[s]) continue;
        for (int op = 0; op < NOPS + (P_C12 ? 1 : 0); op++) {
            if (!op_enabled(&shs, op)) continue;
            memcpy(&snap, vf_set_at(&SET, s), isz);
            vf_snap_load(&L, &snap);
            shadow sh = shs;
            cur_state = s;
            if (!do_op(&sh, op, &mm, true)) { report(s, op, &mm); continue; }
            if (mm.prop) vf_count(CT_IGNORED_OTHER_PROP, 1);
            if (op == OP_OTHERBUF) continue;        /* leaves the state as it was */
            if (!primary && is_reinit(op) && L.p->error_flags == BINSON_ERROR_NONE && !mm.prop) {
                /* successful re-initialisation whose image equals the fresh one: explored in the primary configuration */
                bool r_ok = op == OP_VERIFY ? FR_verify[sh.kind].ret : FR_init[sh.kind].ret;
                if (r_ok) continue;
            }
            L.p->cb = count_cb; L.p->cb_context = NULL;
            vf_snap_save(&snap, &L);
            memcpy(key, &snap, isz); memcpy(key + isz, &sh, sizeof sh);
            size_t idx = vf_set_insert(&SET, key, &isnew);
            if (isnew) {
                if (idx >= PCAP) { PCAP = PCAP ? PCAP * 2 : 4096; PARENT = (uint32_t *) vf_xrealloc(PARENT, PCAP * sizeof *PARENT); OPOF = (uint8_t *) vf_xrealloc(OPOF, PCAP); BADSTATE = (uint8_t *) vf_xrealloc(BADSTATE, PCAP); }
                PARENT[idx] = (uint32_t) s; OPOF[idx] = (uint8_t) op; BADSTATE[idx] = 0;
                if (!observe_state(&mm, true, opname[op])) { report(s, op, &mm); BADSTATE[idx] = 1; }
                else if (mm.prop) vf_count(CT_IGNORED_OTHER_PROP, 1);
            }
        }
    }
    cur_in_bfs = 0;
    vf_count(CT_STATES, SET.n);
    vf_max(CT_MAXSTATES, SET.n);
    if (vf_want_sample() && SET.n > 60) {
        static uint8_t h[8200];
        int n = history_of(SET.n - 1, h, 8192);
        if (n > 24) n = 24;
        vf_str s = { 0 };
        vf_str_printf(&s, "input %s (%zu bytes) init_%s max_depth %d fill 0x%02x: %zu states; a deepest history:", INLABEL, INLEN, KIND0 == VK_OBJ ? "object" : "array", MD, FILL, SET.n);
        for (int i = 0; i < n; i++) vf_str_printf(&s, " %s", opname[h[i]]);
        vf_sample("%s", s.s);
        vf_str_free(&s);
    }
    vf_live_free(&L);
}

static const int DEPTHS_Q[] = { 1, 2, 3 };
static bool CB_FAMILY;
static void process_input(const uint8_t *b, size_t n, const char *label)
{
    IN = b; INLEN = n; INLABEL = label;
    input_serial++;
    vf_count(CT_INPUTS, 1);
    for (int di = 0; di < 3; di++)
        for (int fi = 0; fi < 3; fi++)
            for (int k = VK_OBJ; k <= VK_ARR; k++) {
                KIND0 = k; MD = DEPTHS_Q[di]; FILL = fi == 0 ? 0x00 : fi == 1 ? 0xAA : 0xFF;
                explore_config();
            }
    if (CB_FAMILY) {
        /* the same graph with a user callback that uses the API itself (and raises errors): primary configuration, max_depth 2 */
        for (CBMODE = 1; CBMODE <= 3; CBMODE++) {       /* the callback raises at the 1st, the 2nd or the 3rd token of a call */
            KIND0 = VK_OBJ; MD = 2; FILL = 0;
            vf_count(CT_CBMODE_CONFIGS, 1);
            explore_config();
        }
        CBMODE = 0;
        if (P_C16) {
            /* ... and with a callback that renders the same parser at every token (termination only) */
            CBMODE = 4; KIND0 = VK_OBJ; MD = 2; FILL = 0;
            vf_count(CT_CBMODE_CONFIGS, 1);
            explore_config();
            CBMODE = 0;
        }
    }
}

/* ---- input families */
static int g_w, g_W; static uint64_t g_start, g_index;
static bool take(void)
{
    uint64_t i = g_index++;
    if (i < g_start || (int) (i % (uint64_t) g_W) != g_w) return false;
    vf_set_index(i);
    return true;
}
static void on_seq(vf_tokenum *e, void *u)
{
    (void) u;
    if (vf_deadline_passed()) { e->stop = true; return; }
    if (!take()) return;
    CB_FAMILY = e->depth <= 2;
    process_input(e->buf, e->len, vf_tokenum_label(e));
    CB_FAMILY = false;
}

/* one-deviation mutants of a valid document */
static void mutants_of(const vf_doc *d)
{
    static uint8_t m[4096];
    static const uint8_t bytevals[] = { 0x00, 0x01, 0x10, 0x14, 0x18, 0x40, 0x41, 0x42, 0x43, 0x7f, 0x80, 0xff };
    char label[300];
    size_t n = d->len;
    if (n + 16 > sizeof m) return;
    /* (a) every byte set to each value of the byte alphabet */
    for (size_t i = 0; i < n; i++)
        for (size_t v = 0; v < sizeof bytevals; v++) {
            if (d->bytes[i] == bytevals[v]) continue;
            if (!take()) continue;
            memcpy(m, d->bytes, n); m[i] = bytevals[v];
            snprintf(label, sizeof label, "mutant of %s: byte %zu := %02x", vf_shape(d), i, bytevals[v]);
            vf_count(CT_MUTANTS, 1);
            process_input(m, n, label);
        }
    /* (b) truncation after every byte, (c) one byte deleted, (d) one byte duplicated */
    for (size_t i = 0; i < n; i++) {
        if (take()) { memcpy(m, d->bytes, i); snprintf(label, sizeof label, "mutant of %s: truncated to %zu", vf_shape(d), i); vf_count(CT_MUTANTS, 1); process_input(m, i, label); }
        if (take()) { memcpy(m, d->bytes, i); memcpy(m + i, d->bytes + i + 1, n - i - 1); snprintf(label, sizeof label, "mutant of %s: byte %zu deleted", vf_shape(d), i); vf_count(CT_MUTANTS, 1); process_input(m, n - 1, label); }
        if (take()) { memcpy(m, d->bytes, i + 1); memcpy(m + i + 1, d->bytes + i, n - i); snprintf(label, sizeof label, "mutant of %s: byte %zu duplicated", vf_shape(d), i); vf_count(CT_MUTANTS, 1); process_input(m, n + 1, label); }
    }
    /* (e) every hostile token appended after the root END, and inserted before it */
    for (int t = 0; t < VF_NTOK_HOSTILE; t++) {
        const vf_tok *tk = &vf_tok_hostile[t];
        if (take()) { memcpy(m, d->bytes, n); memcpy(m + n, tk->b, tk->n); snprintf(label, sizeof label, "mutant of %s: token %s appended", vf_shape(d), tk->label); vf_count(CT_MUTANTS, 1); process_input(m, n + tk->n, label); }
        if (take()) { memcpy(m, d->bytes, n - 1); memcpy(m + n - 1, tk->b, tk->n); m[n - 1 + tk->n] = d->bytes[n - 1]; snprintf(label, sizeof label, "mutant of %s: token %s inserted before the root END", vf_shape(d), tk->label); vf_count(CT_MUTANTS, 1); process_input(m, n + tk->n, label); }
    }
}
static void on_doc(vf_gen *g, void *u)
{
    (void) u;
    if (vf_deadline_passed()) { g->stop = true; return; }
    if (take()) process_input(g->doc.bytes, g->doc.len, vf_shape(&g->doc));
    mutants_of(&g->doc);
}

static void on_doc_plain(vf_gen *g, void *u)
{
    (void) u;
    if (vf_deadline_passed()) { g->stop = true; return; }
    if (take()) { CB_FAMILY = true; process_input(g->doc.bytes, g->doc.len, vf_shape(&g->doc)); CB_FAMILY = false; }
}

/* ---- towers: nesting around every limit, linear scripted histories, max_depth up to 255 */
static void tower_run(const uint8_t *b, size_t n, int kind, int md, const char *label)
{
    static const uint8_t script_verify[] = { OP_VERIFY, OP_TOSTR_NULL, OP_PRINT };
    IN = b; INLEN = n; INLABEL = label; KIND0 = kind; MD = md;
    cur_tower = 1;
    for (int fi = 0; fi < 2; fi++) {
        FILL = fi ? 0xAA : 0;
        int refv = vf_ref_decode(IN, INLEN, KIND0, MD, NULL);
        for (int script = 0; script < 5; script++) {
            /* vf_snap is limited to 16 levels: towers run on the live object only */
            vf_live_alloc(&L, IN, INLEN, MD, FILL);
            cur_in_bfs = 0; cur_nhist = 0;
            first_init();
            vf_count(CT_TOWER_RUNS, 1);
            L.p->cb = count_cb;
            if (script == 0) {
                for (size_t i = 0; i < sizeof script_verify; i++) {
                    cur_op = script_verify[i]; vf_progress++;
                    size_t ts = 0;
                    if (cur_op == OP_VERIFY) binson_parser_verify(L.p);
                    else if (cur_op == OP_TOSTR_NULL) binson_parser_to_string(L.p, NULL, &ts, false);
                    else binson_parser_print(L.p);
                    vf_count(CT_TRANS, 1);
                }
            } else if (script == 4) {
                /* enter the root only, then step over everything with next: a too-deep tower is met by a SKIPPING call */
                cur_op = KIND0 == VK_OBJ ? OP_INTO_OBJ : OP_INTO_ARR; vf_progress++;
                if (KIND0 == VK_OBJ) binson_parser_go_into_object(L.p); else binson_parser_go_into_array(L.p);
                for (int round = 0; round < 8; round++) { cur_op = OP_NEXT; vf_progress++; binson_parser_next(L.p); vf_count(CT_TRANS, 1); }
                cur_op = KIND0 == VK_OBJ ? OP_LEAVE_OBJ : OP_LEAVE_ARR; vf_progress++;
                if (KIND0 == VK_OBJ) binson_parser_leave_object(L.p); else binson_parser_leave_array(L.p);
                if (refv == VR_OK && L.p->error_flags != BINSON_ERROR_NONE && P_C01) {
                    vf_str bb = { 0 };
                    describe_case(&bb, NULL, 0, -1);
                    vf_str_printf(&bb, "script: enter the root, 8 x next, leave the root\nmismatch: error %s on a valid document\n", vf_err_name(L.p->error_flags));
                    vf_violation("api:tower:skip-valid-doc-error", bb.s);
                    vf_str_free(&bb);
                }
            } else {
                /* enter everything (script 1) / enter then skip with next (script 2), ignoring results, then leave everything */
                for (int round = 0; round < 2 * 300; round++) {
                    vf_progress++;
                    cur_op = OP_INTO_OBJ; binson_parser_go_into_object(L.p);
                    cur_op = OP_INTO_ARR; binson_parser_go_into_array(L.p);
                    cur_op = OP_NEXT; bool r = binson_parser_next(L.p);
                    if (script == 2) { cur_op = OP_NEXT; binson_parser_next(L.p); }     /* scripts 1 and 3: enter everything; 2: enter then skip */
                    vf_count(CT_TRANS, 4);
                    if (!r && round > 280) break;
                }
                if (script == 1 && (refv == VR_MAXOBJ || refv == VR_MAXARR)) {
                    /* nesting beyond the limit met while entering level by level: the matching error must have been raised and must still be set */
                    binson_err want = refv == VR_MAXOBJ ? BINSON_ERROR_MAX_DEPTH_OBJECT : BINSON_ERROR_MAX_DEPTH_ARRAY;
                    if (L.p->error_flags != want) {
                        if (P_C09) {
                            vf_str bb = { 0 };
                            describe_case(&bb, NULL, 0, -1);
                            vf_str_printf(&bb, "script: enter every level (go_into_object, go_into_array, next; results ignored)\nmismatch: the document nests deeper than the limit but after entering level by level error_flags=%s, expected %s: the failure is not detectable by one check at the end\n",
                                          vf_err_name(L.p->error_flags), vf_err_name(want));
                            vf_violation("api:tower:depth-error-not-latched", bb.s);
                            vf_str_free(&bb);
                        } else vf_count(CT_IGNORED_OTHER_PROP, 1);
                    }
                }
                if (script == 3) {
                    /* C12 at full depth: reset from the deepest position must give the image of a fresh parser (all max_depth entries) */
                    cur_op = OP_RESET;
                    bool rr = binson_parser_reset(L.p);
                    vf_live F;
                    vf_live_alloc(&F, IN, INLEN, MD, 0);
                    bool fr = KIND0 == VK_OBJ ? binson_parser_init_object(F.p, vf_live_bufptr(&L), L.len) : binson_parser_init_array(F.p, vf_live_bufptr(&L), L.len);
                    vf_count(CT_REINIT_CHECKS, 1);
                    const char *bad = NULL;
                    if (rr != fr) bad = "reset returns a different result than init on a fresh parser";
                    else if (rr && (L.p->depth != F.p->depth || L.p->buffer_used != F.p->buffer_used || L.p->error_flags != F.p->error_flags || L.p->type != F.p->type ||
                                    L.p->current_state != L.p->state)) bad = "a scalar field differs from a fresh parser's";
                    else if (rr && memcmp(L.st, F.st, sizeof(binson_state) * (size_t) MD)) bad = "the state array differs from a fresh parser's";
                    else if (rr) {
                        bool v1 = binson_parser_verify(L.p), v2 = binson_parser_verify(F.p);
                        if (v1 != v2 || L.p->error_flags != F.p->error_flags) bad = "verify after the reset differs from verify on a fresh parser";
                    }
                    vf_live_free(&F);
                    if (bad) {
                        if (P_C12) {
                            vf_str bb = { 0 };
                            describe_case(&bb, NULL, 0, -1);
                            vf_str_printf(&bb, "script: enter every level, then reset\nmismatch: %s\n", bad);
                            vf_violation("api:tower:reset-at-depth", bb.s);
                            vf_str_free(&bb);
                        } else vf_count(CT_IGNORED_OTHER_PROP, 1);
                    }
                }
                for (int round = 0; round < 300; round++) {
                    vf_progress++;
                    cur_op = OP_LEAVE_OBJ; binson_parser_leave_object(L.p);
                    cur_op = OP_LEAVE_ARR; binson_parser_leave_array(L.p);
                    vf_count(CT_TRANS, 2);
                }
            }
            if (L.p->error_flags == BINSON_ERROR_MAX_DEPTH_OBJECT) vf_count(CT_E_MAXOBJ, 1);
            if (L.p->error_flags == BINSON_ERROR_MAX_DEPTH_ARRAY) vf_count(CT_E_MAXARR, 1);
            vf_count(CT_STATES, 1);
            vf_live_free(&L);
        }
    }
    cur_tower = 0;
}
static void towers(void)
{
    static uint8_t t[4096];
    static const int depths[] = { 1, 2, 3, 10, 255 };
    char label[100];
    for (int di = 0; di < 5; di++) {
        int d = depths[di];
        for (int k = d - 1; k <= d + 1; k++) {
            if (k < 1) continue;
            /* k nested objects {"a":{"a":...}} */
            size_t n = 0;
            for (int i = 0; i < k; i++) { t[n++] = 0x40; if (i < k - 1) { t[n++] = 0x14; t[n++] = 0x01; t[n++] = 'a'; } }
            for (int i = 0; i < k; i++) t[n++] = 0x41;
            snprintf(label, sizeof label, "tower: %d nested objects, max_depth %d", k, d);
            if (take()) tower_run(t, n, VK_OBJ, d, label);
            /* array root holding k nested objects [{"a":{..}}] */
            n = 0; t[n++] = 0x42;
            for (int i = 0; i < k; i++) { t[n++] = 0x40; if (i < k - 1) { t[n++] = 0x14; t[n++] = 0x01; t[n++] = 'a'; } }
            for (int i = 0; i < k; i++) t[n++] = 0x41;
            t[n++] = 0x43;
            snprintf(label, sizeof label, "tower: array root with %d nested objects, max_depth %d", k, d);
            if (take()) tower_run(t, n, VK_ARR, d, label);
            /* alternation {"a":[{"a":[...]}]} with k objects */
            n = 0;
            for (int i = 0; i < k; i++) { t[n++] = 0x40; if (i < k - 1) { t[n++] = 0x14; t[n++] = 0x01; t[n++] = 'a'; t[n++] = 0x42; } }
            for (int i = 0; i < k; i++) { t[n++] = 0x41; if (i < k - 1) t[n++] = 0x43; }
            snprintf(label, sizeof label, "tower: %d objects alternating with arrays, max_depth %d", k, d);
            if (take()) tower_run(t, n, VK_OBJ, d, label);
        }
    }
    for (int k = 254; k <= 257; k++)
        for (int di = 0; di < 2; di++) {
            size_t n = 0;
            for (int i = 0; i < k; i++) t[n++] = 0x42;
            for (int i = 0; i < k; i++) t[n++] = 0x43;
            snprintf(label, sizeof label, "tower: %d nested arrays (array root), max_depth %d", k, di ? 255 : 1);
            if (take()) tower_run(t, n, VK_ARR, di ? 255 : 1, label);
            n = 0; t[n++] = 0x40; t[n++] = 0x14; t[n++] = 0x01; t[n++] = 'a';
            for (int i = 0; i < k; i++) t[n++] = 0x42;
            for (int i = 0; i < k; i++) t[n++] = 0x43;
            t[n++] = 0x41;
            snprintf(label, sizeof label, "tower: %d nested arrays in an object field, max_depth %d", k, di ? 255 : 1);
            if (take()) tower_run(t, n, VK_OBJ, di ? 255 : 1, label);
        }
}

#define WBASE (1ULL << 40)
static int L_FRAMED, L_UNFRAMED, N_DOC, L_CORE;
static wexp_cfg WCF;
static const int walpha_small[] = { WO_OBJ_BEGIN, WO_OBJ_END, WO_ARR_BEGIN, WO_TRUE, WO_INT_1, WO_INT_128, WO_INT_2P31, WO_DOUBLE, WO_STR_0, WO_STR_1, WO_STR_128, WO_STRZ_AB, WO_BYT_1, WO_RAW_0, WO_RAW_2, WO_P2W, WO_P2W_REFUSED };

/* The public definition macros: a parser made by a *_STATIC macro is meant to outlive the function that defines it, so both the object
 * and the state array it points to must have static storage; one made by the plain macros lives in the defining frame. A state array
 * in the frame of a function that has returned would make every later call write into dead (soon: somebody else's) stack memory. */
static __attribute__((noinline)) binson_parser *macro_static_default(void) { BINSON_PARSER_DEF_STATIC(sp); return &sp; }
static __attribute__((noinline)) binson_parser *macro_static_depth(void) { BINSON_PARSER_DEF_DEPTH_STATIC(sq, 4); return &sq; }
static __attribute__((noinline)) binson_parser *macro_static_deep(void) { BINSON_PARSER_DEF_DEPTH_STATIC(sr, 16); return &sr; }
static bool near_stack(const void *a)
{
    uintptr_t here = (uintptr_t) __builtin_frame_address(0), x = (uintptr_t) a;
    return (x > here ? x - here : here - x) < (8u << 20);
}
static const char *macro_probe_run(void)
{
    binson_parser *a = macro_static_default(), *b = macro_static_depth();
    BINSON_PARSER_DEF(la);
    BINSON_PARSER_DEF_DEPTH(lb, 3);
    if (near_stack(a) || near_stack(a->state) || near_stack(b) || near_stack(b->state)) return "a parser defined with a *_STATIC macro, or its state array, lives on the stack of the function that defined it";
    binson_parser *c = macro_static_deep();
    BINSON_PARSER_DEF_DEPTH(lc, 16);
    if (near_stack(c) || near_stack(c->state)) return "a parser defined with a *_STATIC macro, or its state array, lives on the stack of the function that defined it";
    if (a->max_depth != BINSON_PARSER_DEFAULT_DEPTH || b->max_depth != 4 || c->max_depth != 16 || la.max_depth != BINSON_PARSER_DEFAULT_DEPTH || lb.max_depth != 3 || lc.max_depth != 16)
        return "a definition macro sets a max_depth other than the size of the state array it creates";
    /* init wipes max_depth state entries: under ASan an array smaller than the advertised depth traps here (static and automatic) */
    static const uint8_t d0[] = { 0x40, 0x41 };
    binson_parser *all[6] = { a, b, c, &la, &lb, &lc };
    for (int i = 0; i < 6; i++) if (!binson_parser_init_object(all[i], d0, sizeof d0) || !binson_parser_verify(all[i])) return "a parser made by a definition macro rejects {}";
    return NULL;
}
static void macro_probe(void)
{
    const char *bad = macro_probe_run();
    if (bad) {
        vf_str t = { 0 };
        vf_str_printf(&t, "kind: macro-probe\nmismatch: %s\n", bad);
        vf_violation("api:definition-macro-storage", t.s);
        vf_str_free(&t);
    }
}
static void worker(int w, int W, uint64_t start)
{
    g_w = w; g_W = W; g_start = start; g_index = 0;
    if (w == 0 && start == 0 && P_C01) macro_probe();
    vf_fatal_describe = fatal_describe;
    if (!freopen("/dev/null", "w", stdout)) vf_die("freopen");
    tostr_buf = (char *) vf_xmalloc(4096);
    for (int b = 0; b < NB; b++) {
        Bbuf[b] = (uint8_t *) vf_xmalloc(16);
        long l = vf_unhex(Bbuf[b], 16, BSET[b].hex);
        Blen[b] = (size_t) l;
        Bbuf[b] = (uint8_t *) vf_xrealloc(Bbuf[b], Blen[b]);
    }
    if (start >= WBASE) goto writer_phase;
    /* 1. towers (cheap, first so that a depth bug gives the smallest witness) */
    towers();
    /* 2. token sequences: unframed, then framed as object / as array */
    vf_tokenum e;
    for (int frame = 0; frame <= 2; frame++) {
        memset(&e, 0, sizeof e);
        e.alpha = vf_tok_hostile; e.ntok = VF_NTOK_HOSTILE;
        e.maxlen = frame == 0 ? L_UNFRAMED : L_FRAMED;
        e.frame = frame == 0 ? 0 : (frame == 1 ? VK_OBJ : VK_ARR);
        e.cb = on_seq; e.w = 0; e.W = 1;       /* partition by the global running index (take) */
        vf_tokenum_run(&e);
    }
    /* 2b. one token deeper over the core alphabet (one representative per behaviour class) */
    if (L_CORE > L_FRAMED)
        for (int frame = 1; frame <= 2; frame++) {
            memset(&e, 0, sizeof e);
            e.alpha = vf_tok_hostile; e.idx = vf_tok_core_idx; e.ntok = VF_NTOK_CORE; e.maxlen = L_CORE; e.frame = frame == 1 ? VK_OBJ : VK_ARR;
            e.cb = on_seq; e.w = 0; e.W = 1;
            vf_tokenum_run(&e);
        }
    /* 3. valid documents and all their one-deviation mutants */
    static const int cls[] = { LC_INT8, LC_INT16, LC_STR, LC_STRNUL, LC_BYT, LC_DBL, LC_TRUE, LC_OBJ, LC_ARR };     /* LC_STRNUL = "x\\0<k>" */
    static vf_gen g;
    for (int root = VK_OBJ; root <= VK_ARR; root++) {
        memset(&g, 0, sizeof g);
        g.root_kind = root; g.max_tokens = N_DOC; g.classes = cls; g.nclasses = 9; g.names = vf_names_abc; g.nnames = 2; g.max_obj_depth = 4;
        g.cb = on_doc;
        vf_gen_run(&g);
    }
    /* 3b. long names (2-byte length prefix) under lookups: documents only, no mutants */
    {
        static const int clsl[] = { LC_INT8, LC_STR, LC_OBJ, LC_ARR };
        memset(&g, 0, sizeof g);
        g.root_kind = VK_OBJ; g.max_tokens = N_DOC; g.classes = clsl; g.nclasses = 4; g.names = vf_names_abL; g.nnames = 4; g.max_obj_depth = 3;
        g.cb = on_doc_plain;
        vf_gen_run(&g);
    }
    /* 3b'. sibling family: every pair (thorough: and triple) of small sibling subtrees, documents only */
    {
        memset(&g, 0, sizeof g);
        g.cb = on_doc_plain;
        vf_sibling_run(&g, vf_g.thorough ? 2 : 1);
    }
    /* 3c. payloads that need a 2-byte and a 4-byte length prefix (string, bytes, name), in the smallest shapes */
    {
        static vf_doc bd;
        static uint8_t big[66000];
        memset(big, 'h', sizeof big);
        static const size_t lens[] = { 300, 32768, 40000, 66000 };    /* 300 > 255, 66000 > 65535: 8- and 16-bit loop counters wrap */
        for (int li = 0; li < 4; li++)
            for (int shape = 0; shape < 5; shape++) {
                if (!take()) continue;
                vf_b_reset(&bd);
                switch (shape) {
                case 0: vf_b_open(&bd, VK_OBJ); vf_b_name(&bd, "a", 1); vf_b_blob(&bd, VK_STR, big, lens[li]); vf_b_name(&bd, "b", 1); vf_b_int(&bd, 1); vf_b_close(&bd); break;
                case 1: vf_b_open(&bd, VK_ARR); vf_b_blob(&bd, VK_BYT, big, lens[li]); vf_b_int(&bd, 2); vf_b_close(&bd); break;
                case 2: vf_b_open(&bd, VK_OBJ); vf_b_name(&bd, "a", 1); vf_b_int(&bd, 1); vf_b_name(&bd, big, lens[li]); vf_b_int(&bd, 2); vf_b_close(&bd); break;
                case 3: vf_b_open(&bd, VK_OBJ); vf_b_name(&bd, "a", 1); vf_b_open(&bd, VK_ARR); vf_b_blob(&bd, VK_STR, big, lens[li]); vf_b_close(&bd); vf_b_name(&bd, "b", 1); vf_b_int(&bd, 3); vf_b_close(&bd); break;
                default: vf_b_open(&bd, VK_OBJ); vf_b_name(&bd, big, lens[li]); vf_b_open(&bd, VK_OBJ); vf_b_name(&bd, "a", 1); vf_b_int(&bd, 4); vf_b_close(&bd); vf_b_close(&bd); break;
                }
                char lab[80];
                snprintf(lab, sizeof lab, "big payload: shape %d, length %zu", shape, lens[li]);
                process_input(bd.bytes, bd.len, lab);
            }
    }
    /* 3d. wide containers: 300 elements / fields (8-bit counters wrap), explored like any other input */
    {
        static vf_doc wd;
        for (int shape = 0; shape < 2; shape++) {
            if (!take()) continue;
            vf_b_reset(&wd);
            if (shape == 0) { vf_b_open(&wd, VK_ARR); for (int i = 0; i < 300; i++) { if (i % 50 == 49) { vf_b_open(&wd, VK_ARR); vf_b_close(&wd); } else vf_b_int(&wd, i); } vf_b_close(&wd); }
            else {
                vf_b_open(&wd, VK_OBJ);
                for (int i = 0; i < 300; i++) { char nm[3] = { (char) ('a' + i / 26), (char) ('a' + i % 26), 0 }; vf_b_name(&wd, nm, 2); if (i % 60 == 59) { vf_b_open(&wd, VK_OBJ); vf_b_close(&wd); } else vf_b_int(&wd, i); }
                vf_b_close(&wd);
            }
            process_input(wd.bytes, wd.len, shape ? "wide: object of 300 fields" : "wide: array of 300 elements");
        }
    }
    /* 4. the writer (C09, C12, C16 speak about it too) */
writer_phase:
    if (P_C09 || P_C12 || P_C16) {
        in_writer_phase = 1;
        wexp_index_base = WBASE;
        if (start < 2 * WBASE) wexp_explore(&WCF, w, W, start >= WBASE ? start - WBASE : 0, "writer");
        /* single parametric operations (every integer width boundary, double patterns, every payload length 0..64 and longer ones) at
         * every capacity: the same latching / reset / termination oracles after a failure at any byte of any token */
        wexp_index_base = 2 * WBASE;
        wexp_values(&WCF, w, W, start >= 2 * WBASE ? start - 2 * WBASE : 0, "writer", 64);
        in_writer_phase = 0;
    }
}

static void replay_main(void)
{
    char *t = vf_replay_load(vf_g.replay);
    char *kind = vf_replay_get(t, "kind");
    if (kind && !strcmp(kind, "writer")) exit(wexp_replay(&WCF, t));
    if (kind && !strcmp(kind, "macro-probe")) {
        const char *bad = macro_probe_run();
        if (bad) { printf("replay: %s\nVIOLATION property=%s replay=%s\n", bad, vf_g.prop, vf_g.replay); exit(VF_EXIT_VIOLATION); }
        printf("replay: the definition macros create objects of the documented storage\n");
        exit(VF_EXIT_OK);
    }
    char *init = vf_replay_get(t, "init"), *md = vf_replay_get(t, "max_depth"), *fill = vf_replay_get(t, "fill"), *hex = vf_replay_get(t, "input_hex"),
         *ops = vf_replay_get(t, "ops");
    if (!init || !md || !fill || !hex || !ops) vf_die("replay file lacks init/max_depth/fill/input_hex/ops");
    static uint8_t bytes[200000];
    long n = vf_unhex(bytes, sizeof bytes, hex);
    if (n < 0) vf_die("bad input_hex");
    input_serial++;
    IN = bytes; INLEN = (size_t) n; INLABEL = "replay"; KIND0 = !strcmp(init, "object") ? VK_OBJ : VK_ARR; MD = atoi(md); FILL = atoi(fill);
    { char *cm = vf_replay_get(t, "callback_mode"); CBMODE = cm ? atoi(cm) : 0; }
    if (MD > VF_MAXDEPTH_SNAP) vf_die("tower replays run the scripted history only inside the exploring check");
    uint8_t h[8192];
    int nh = 0;
    for (char *p = ops; *p;) { while (*p == ' ') p++; if (!*p) break; h[nh++] = (uint8_t) strtoul(p, &p, 10); }
    tostr_buf = (char *) vf_xmalloc(4096);
    for (int b = 0; b < NB; b++) { Bbuf[b] = (uint8_t *) vf_xmalloc(16); Blen[b] = (size_t) vf_unhex(Bbuf[b], 16, BSET[b].hex); }
    vf_g.wid = 0;
    vf_fatal_describe = fatal_describe;
    vf_install_fatal();
    mismatch mm;
    int bad = run_history(h, nh, &mm);
    if (bad == -2) vf_die("replay: %s", mm.why);
    if (bad >= 0) {
        printf("replay: op %d (%s) fails: %s\nVIOLATION property=%s replay=%s\n", bad, opname[h[bad]], mm.why, vf_g.prop, vf_g.replay);
        exit(VF_EXIT_VIOLATION);
    }
    printf("replay: history of %d ops passes all oracles of %s\n", nh, vf_g.prop);
    exit(VF_EXIT_OK);
}

int main(int argc, char **argv)
{
    vf_main_init(argc, argv, "api", ctr_names);
    P_C01 = !strcmp(vf_g.prop, "C01"); P_C09 = !strcmp(vf_g.prop, "C09"); P_C12 = !strcmp(vf_g.prop, "C12"); P_C16 = !strcmp(vf_g.prop, "C16");
    if (!P_C01 && !P_C09 && !P_C12 && !P_C16) vf_die("api decides C01, C09, C12, C16");
    const char *e;
    L_FRAMED = vf_g.thorough ? 3 : 2; L_UNFRAMED = vf_g.thorough ? 3 : 2; N_DOC = vf_g.thorough ? 3 : 2; L_CORE = vf_g.thorough ? 4 : 3;
    if ((e = getenv("VERIF_LCORE"))) L_CORE = atoi(e);
    if ((e = getenv("VERIF_L"))) L_FRAMED = atoi(e);
    if ((e = getenv("VERIF_LU"))) L_UNFRAMED = atoi(e);
    if ((e = getenv("VERIF_N"))) N_DOC = atoi(e);
    memset(&WCF, 0, sizeof WCF);
    WCF.c09 = P_C09; WCF.c12 = P_C12; WCF.c16 = P_C16;
    WCF.K = vf_g.thorough ? 3 : 2; WCF.alpha = walpha_small; WCF.nalpha = (int) (sizeof walpha_small / sizeof walpha_small[0]); WCF.with_noenc = true;
    if (vf_g.replay) replay_main();
    int deaths = vf_run_workers(worker);
    static char bound[3000];
    snprintf(bound, sizeof bound,
             "inputs: all sequences of <= %d tokens over the %d-token hostile alphabet (and of <= %d tokens over the 24-token core alphabet) framed as object and as array, all unframed sequences of <= %d tokens "
             "(incl. the empty and 1-byte buffers), all valid documents with <= %d value tokens and ALL their one-deviation mutants (each byte x 12 values, "
             "truncation/deletion/duplication at every byte, every hostile token appended / inserted), nesting towers k in {d-1,d,d+1} for max_depth d in "
             "{1,2,3,10,255} and 254..257 nested arrays; x {init_object, init_array} x max_depth {1,2,3} x prior memory fill {0x00,0xAA,0xFF}; per configuration: "
             "fixpoint over all sequences (any length) of %d API operations; writer: all sequences of <= %d of %d operations (+ each of 6 unencodable calls at every "
             "position) x every capacity",
             L_FRAMED, VF_NTOK_HOSTILE, L_CORE, L_UNFRAMED, N_DOC, NOPS, WCF.K, WCF.nalpha);
    static const char *const assumptions[] = {
        "field lookups are issued only while the application-level shadow stack says 'inside an object' (the precondition stated in C01)",
        "all pointers handed to the API are valid (parser, state array of max_depth entries, buffer of the stated length)",
        "equal byte images of (parser, state[]) have equal futures; garbage-fill configurations whose image after an accepted init equals the zero-fill image are merged",
        "ASan/UBSan (gcc 12) detect every out-of-bounds access to the exact-size heap blocks holding input, parser and state array; accesses that stay inside another live heap block would escape"
    };
    static const int must01[] = { CT_INPUTS, CT_INIT_REJECTED, CT_INIT_ACCEPTED, CT_SPANS_CHECKED, CT_LOOKUPS, CT_TOWER_RUNS, CT_MUTANTS, CT_E_MAXOBJ, CT_E_MAXARR };
    static const int must09[] = { CT_ERRSTATE_TRANS, CT_E_RANGE, CT_E_FORMAT, CT_E_NULL, CT_E_STATE, CT_E_WRONGTYPE, CT_E_MAXOBJ, CT_E_MAXARR, CT_W_ERR_RANGE, CT_W_ERR_NULL, CT_W_FALSE_CALLS };
    static const int must12[] = { CT_REINIT_CHECKS, CT_REINIT_OTHER_BUFFER, CT_MERGED_FILL, CT_W_REINIT_CHECKS };
    static const int must16[] = { CT_CB_CALLS, CT_LOOKUPS, CT_W_CALLS };
    vf_evidence_spec es;
    memset(&es, 0, sizeof es);
    es.c_states = CT_STATES; es.c_transitions = CT_TRANS; es.c_validated = CT_TRANS;
    snprintf(bound + strlen(bound), sizeof bound - strlen(bound), "%s", "; later additions: every pair (thorough: and triple) of small sibling subtrees and the pairs one level further down; a lookup with a 300-byte query; a continuation probe for "
             "string_equals; a probe of the public definition macros; to_string / print on invalid documents must leave the error set (C09); a callback that renders the same parser at every token "
             "(C16, termination only); writer part: single parametric operations (integers +-2^k+d, 10^k+-1, sparse patterns; lengths 0..64 and long ones), a refused parser_to_writer, "
             "overlapping sources, capacities beyond any real buffer");
    es.bound = bound;
    es.rule = "exhaustive enumeration of inputs x configurations; breadth-first search over the byte image of (parser, state[]) + application shadow stack, exact-compare visited set; one transition = one real API call under ASan+UBSan with all monitors";
    es.assumptions = assumptions; es.nassumptions = 4;
    if (P_C01) { es.must_be_nonzero = must01; es.n_must = 9; }
    if (P_C09) { es.must_be_nonzero = must09; es.n_must = 11; }
    if (P_C12) { es.must_be_nonzero = must12; es.n_must = 4; }
    if (P_C16) { es.must_be_nonzero = must16; es.n_must = 3; }
    return vf_finish(&es, deaths);
}
