/* verify.c - C02: binson_parser_verify accepts exactly the well-formed documents.
 * Exhaustive enumeration of a bounded input space, each input evaluated by the
 * real init + verify and by the independent recursive-descent recogniser, for
 * every root kind and every max_depth of the configuration set. The explored
 * structure is the prefix tree of token sequences (states = nodes visited,
 * transitions = (input, kind, depth) evaluations of the real code). */
#include "../lib/vf_util.h"
#include "../lib/vf_ref.h"
#include "../lib/vf_gen.h"
#include "../lib/vf_run.h"
#include "binson_light.h"
#include <dirent.h>
#include <sys/mman.h>

enum {
    CT_INPUTS, CT_NODES, CT_EVALS, CT_ACCEPTED, CT_REJ_RANGE, CT_REJ_FORMAT, CT_REJ_MAXOBJ, CT_REJ_MAXARR, CT_TOK_SEQS, CT_DOCS, CT_MUT1, CT_MUT2,
    CT_TOWERS, CT_CORPUS, CT_DISTINCT_ACCEPTED_HASH, CT_WIDTH_CASES
};
static const char *const ctr_names[VF_NCTR] = {
    "inputs", "prefix_tree_nodes", "evaluations_input_x_kind_x_depth", "accepted", "rejected_ref_RANGE", "rejected_ref_FORMAT",
    "rejected_ref_MAX_DEPTH_OBJECT", "rejected_ref_MAX_DEPTH_ARRAY", "token_sequences", "valid_documents", "mutants_distance_1", "mutants_distance_2",
    "tower_inputs", "corpus_files", "accepted_inputs_digest_terms", "integer_width_boundary_cases"
};

static const int *DEPTHS; static int NDEPTHS;
static const int depths_full[] = { 1, 2, 3, 10, 255 };
static const int depths_two[] = { 1, 3 };

static uint8_t *scratch;        /* inputs are copied to the END of this block */
#define SCRATCH 600000
static binson_state ST[256];

static const uint8_t *cur_in; static size_t cur_n; static int cur_kind, cur_md; static const char *cur_label;
static void describe(vf_str *o)
{
    vf_str_printf(o, "root: %s\nmax_depth: %d\ninput_len: %zu\ninput_hex: ", cur_kind == VK_OBJ ? "object" : "array", cur_md, cur_n);
    if (cur_n <= 600000) vf_str_hex(o, cur_in, cur_n); else vf_str_printf(o, "(too long)");
    vf_str_printf(o, "\ninput_label: %s\n", cur_label ? cur_label : "");
}

static bool impl_verify(const uint8_t *b, size_t n, int kind, int md, binson_err *err)
{
    binson_parser p;
    memset(&p, 0, sizeof p);
    p.state = ST; p.max_depth = (uint_fast8_t) md;
    vf_progress++;
    vf_stack_paint();
    if (kind == VK_OBJ) (void) binson_parser_init_object(&p, b, n); else (void) binson_parser_init_array(&p, b, n);
    bool r = binson_parser_verify(&p);
    *err = p.error_flags;
    return r;
}

/* returns false on mismatch (and reports it) */
static bool eval_one(const uint8_t *in, size_t n, int kind, int md, const char *label, bool counting)
{
    uint8_t *b = scratch + SCRATCH - n;     /* the input ends where the block ends */
    memcpy(b, in, n);
    cur_in = b; cur_n = n; cur_kind = kind; cur_md = md; cur_label = label;
    int ref = vf_ref_decode(b, n, kind, md, NULL);
    binson_err err;
    bool r = impl_verify(b, n, kind, md, &err);
    if (counting) {
        vf_count(CT_EVALS, 1);
        switch (ref) {
        case VR_OK: vf_count(CT_ACCEPTED, 1); vf_digest(vf_hash_bytes(vf_hash_u64(VF_HASH_INIT, (uint64_t) (kind * 1000 + md)), b, n)); break;
        case VR_RANGE: vf_count(CT_REJ_RANGE, 1); break;
        case VR_FORMAT: vf_count(CT_REJ_FORMAT, 1); break;
        case VR_MAXOBJ: vf_count(CT_REJ_MAXOBJ, 1); break;
        case VR_MAXARR: vf_count(CT_REJ_MAXARR, 1); break;
        }
    }
    const char *why = NULL;
    char sig[160], msg[300];
    if (r != (ref == VR_OK)) {
        snprintf(msg, sizeof msg, "verify returned %s (error %d) but the reference recogniser says %s", r ? "true" : "false", (int) err, vf_vr_name[ref]);
        snprintf(sig, sizeof sig, "verify:%s:ref=%s", r ? "accepts-malformed" : "rejects-wellformed", vf_vr_name[ref]);
        why = msg;
    } else if (r && err != BINSON_ERROR_NONE) {
        snprintf(msg, sizeof msg, "verify returned true with error_flags=%d", (int) err);
        snprintf(sig, sizeof sig, "verify:true-with-error");
        why = msg;
    } else if (ref == VR_MAXOBJ && err != BINSON_ERROR_MAX_DEPTH_OBJECT) {
        snprintf(msg, sizeof msg, "object nesting is the first obstacle but error_flags=%d, not MAX_DEPTH_OBJECT", (int) err);
        snprintf(sig, sizeof sig, "verify:errcode:maxobj-got-%d", (int) err);
        why = msg;
    } else if (ref == VR_MAXARR && err != BINSON_ERROR_MAX_DEPTH_ARRAY) {
        snprintf(msg, sizeof msg, "array nesting is the first obstacle but error_flags=%d, not MAX_DEPTH_ARRAY", (int) err);
        snprintf(sig, sizeof sig, "verify:errcode:maxarr-got-%d", (int) err);
        why = msg;
    }
    if (!why) return true;
    if (counting) {
        /* determinism guard */
        binson_err e2, e3;
        bool r2 = impl_verify(b, n, kind, md, &e2), r3 = impl_verify(b, n, kind, md, &e3);
        if (r2 != r || r3 != r || e2 != err || e3 != err) vf_die("verify is not deterministic on %s", label);
        vf_str t = { 0 };
        describe(&t);
        vf_str_printf(&t, "mismatch: %s\n", why);
        vf_violation(sig, t.s);
        vf_str_free(&t);
    } else {
        printf("replay: %s\n", why);
    }
    return false;
}

static void eval_input(const uint8_t *in, size_t n, const char *label, int only_kind)
{
    vf_count(CT_INPUTS, 1);
    for (int kind = VK_OBJ; kind <= VK_ARR; kind++) {
        if (only_kind && kind != only_kind) continue;
        for (int d = 0; d < NDEPTHS; d++) eval_one(in, n, kind, DEPTHS[d], label, true);
    }
}

static int g_w, g_W; static uint64_t g_start, g_index;
static bool take(void)
{
    uint64_t i = g_index++;
    if (i < g_start || (int) (i % (uint64_t) g_W) != g_w) return false;
    vf_set_index(i);
    return true;
}

static void on_seq(vf_tokenum *e, void *u)
{
    (void) u;
    if ((e->index & 0xfff) == 0 && vf_deadline_passed()) { e->stop = true; return; }
    vf_count(CT_TOK_SEQS, 1);
    if (vf_want_sample() && e->depth == e->maxlen && (e->index % 977) == 0) vf_sample("token sequence %s", vf_tokenum_label(e));
    /* a framed sequence is evaluated with both init kinds only at small lengths; the matching kind always */
    eval_input(e->buf, e->len, "token sequence", e->depth >= 4 ? e->frame : 0);
}

static int MUT_D;
static uint8_t *mscratch1, *mscratch2;
static char mlabel[400];
static void on_mut2(const uint8_t *m, size_t n, const char *what, void *u)
{
    (void) u; (void) what;
    if (!take()) return;
    vf_count(CT_MUT2, 1);
    eval_input(m, n, mlabel, 0);
}

static void on_mut1(const uint8_t *m, size_t n, const char *what, void *u)
{
    const vf_doc *d = (const vf_doc *) u;
    snprintf(mlabel, sizeof mlabel, "mutant of %s: %s", vf_shape(d), what);
    if (take()) { vf_count(CT_MUT1, 1); eval_input(m, n, mlabel, 0); }
    if (MUT_D >= 2 && d->nn <= 3) {
        static uint8_t copy[300];
        if (n > sizeof copy) return;
        memcpy(copy, m, n);
        size_t l = strlen(mlabel);
        snprintf(mlabel + l, sizeof mlabel - l, " + second deviation");
        vf_mutants(copy, n, mscratch2, 4096, on_mut2, NULL);
    }
}
static void on_doc(vf_gen *g, void *u)
{
    (void) u;
    if (vf_deadline_passed()) { g->stop = true; return; }
    if (take()) {
        vf_count(CT_DOCS, 1);
        eval_input(g->doc.bytes, g->doc.len, vf_shape(&g->doc), 0);
        if (vf_want_sample() && g->doc.nn >= 4) vf_sample("valid document %s and all its mutants", vf_shape(&g->doc));
    }
    vf_mutants(g->doc.bytes, g->doc.len, mscratch1, 4096, on_mut1, &g->doc);
}

static void on_doc_nomut(vf_gen *g, void *u)
{
    (void) u;
    if (vf_deadline_passed()) { g->stop = true; return; }
    if (take()) { vf_count(CT_DOCS, 1); eval_input(g->doc.bytes, g->doc.len, vf_shape(&g->doc), 0); }
}

/* integer and length-prefix width boundaries: every width x values around every boundary, as value, string length, bytes length and name length */
static void width_family(void)
{
    static const int64_t vals[] = { 0, 1, -1, 126, 127, 128, 129, -127, -128, -129, -130, 255, 256, 32766, 32767, 32768, 32769, -32767, -32768, -32769, -32770,
                                    65535, 65536, 2147483646LL, 2147483647LL, 2147483648LL, 2147483649LL, -2147483647LL, -2147483648LL, -2147483649LL,
                                    4294967295LL, 4294967296LL, INT64_MAX, INT64_MIN, INT64_MIN + 1 };
    static uint8_t b[70100];
    char label[120];
    for (size_t vi = 0; vi < sizeof vals / sizeof vals[0]; vi++)
        for (int w = 0; w < 4; w++) {
            int64_t v = vals[vi];
            int wb = 1 << w;
            /* representable in w bytes? (otherwise the truncated value is what is encoded; still a legal test input) */
            for (int form = 0; form < 4; form++) {
                /* form 0: integer element, 1: string length, 2: bytes length, 3: name length */
                if (form > 0 && v > 66000) continue;    /* huge positive lengths: covered by the token alphabet (no payload possible) */
                if (!take()) continue;
                size_t n = 0;
                int kind = form == 3 ? VK_OBJ : VK_ARR;
                b[n++] = kind == VK_OBJ ? 0x40 : 0x42;
                uint8_t base = form == 0 ? 0x10 : (form == 2 ? 0x18 : 0x14);
                b[n++] = (uint8_t) (base + w);
                uint64_t uv = (uint64_t) v;
                for (int i = 0; i < wb; i++) b[n++] = (uint8_t) (uv >> (8 * i));
                if (form > 0 && v > 0 && v <= 66000) { memset(b + n, 'x', (size_t) v); n += (size_t) v; }
                /* a NEGATIVE length in 1 or 2 bytes, followed by as many bytes as its unsigned reading asks for: still malformed */
                if (form > 0 && v < 0 && w <= 1) { size_t u = (size_t) (uv & (w == 0 ? 0xff : 0xffff)); memset(b + n, 'x', u); n += u; }
                if (form == 3) { b[n++] = 0x44; }
                b[n++] = kind == VK_OBJ ? 0x41 : 0x43;
                snprintf(label, sizeof label, "width family: value %lld in %d byte(s) as %s", (long long) v, wb,
                         form == 0 ? "integer" : form == 1 ? "string length" : form == 2 ? "bytes length" : "name length");
                vf_count(CT_WIDTH_CASES, 1);
                eval_input(b, n, label, kind);
            }
        }
    /* every length (quick: 0..1100 and a few non-round longer ones; thorough: 0..70000) as a string / bytes / name length in each of the
     * three prefix widths 1, 2, 4 with exactly that many payload bytes, and with one byte fewer (truncated) */
    size_t maxlen = vf_g.thorough ? 70000 : 1100;
    static const size_t more[] = { 4608, 4863, 32767, 32768, 65535, 65536, 65794 };
    for (size_t li = 0; li <= maxlen + (vf_g.thorough ? 0 : sizeof more / sizeof more[0]); li++) {
        if (!take()) continue;
        if (vf_deadline_passed()) return;
        size_t l = li <= maxlen ? li : more[li - maxlen - 1];
        for (int w = 0; w < 3; w++)
            for (int form = 1; form < 4; form++)
                for (int shrt = 0; shrt < 2; shrt++) {
                    if ((w == 0 && l > 255) || (w == 1 && l > 65535) || (shrt && l == 0)) continue;
                    size_t n = 0;
                    int kind = form == 3 ? VK_OBJ : VK_ARR;
                    b[n++] = kind == VK_OBJ ? 0x40 : 0x42;
                    b[n++] = (uint8_t) ((form == 2 ? 0x18 : 0x14) + w);
                    for (int i = 0; i < (1 << w); i++) b[n++] = (uint8_t) (l >> (8 * i));
                    memset(b + n, 'x', l - (size_t) shrt); n += l - (size_t) shrt;
                    if (form == 3) b[n++] = 0x44;
                    b[n++] = kind == VK_OBJ ? 0x41 : 0x43;
                    snprintf(label, sizeof label, "length sweep: %zu in %d byte(s) as %s%s", l, 1 << w, form == 1 ? "string length" : form == 2 ? "bytes length" : "name length",
                             shrt ? ", payload one byte short" : "");
                    vf_count(CT_WIDTH_CASES, 1);
                    eval_input(b, n, label, kind);
                }
    }
}

static void on_trailing(const uint8_t *b, size_t n, int kind, const char *label, void *u)
{
    (void) u;
    if (!take()) return;
    vf_count(CT_WIDTH_CASES, 1);
    eval_input(b, n, label, kind);
}
static void trailing_family(void) { vf_trailing_inputs(on_trailing, NULL); }

/* giant family: documents of about 2 GiB in a lazily backed mapping (neither verify nor the reference reads payload bytes): a string,
 * a bytes value and a name of exactly INT32_MAX and INT32_MAX - 1 bytes - the largest lengths the format allows - complete, and with
 * the closing byte one position early. Evaluated in place (no copy, no digest); identified in a replay by their index. */
#define GIANT_CASES 12
static uint8_t *giant_arena;
static size_t giant_build(int idx, int *kind)
{
    const size_t cap = (size_t) INT32_MAX + 64;
    if (!giant_arena) {
        void *m = mmap(NULL, cap, PROT_READ | PROT_WRITE, MAP_PRIVATE | MAP_ANONYMOUS | MAP_NORESERVE, -1, 0);
        if (m == MAP_FAILED) return 0;
        giant_arena = (uint8_t *) m;
    }
    uint8_t *b = giant_arena;
    int role = idx % 3, lenv = (idx / 3) % 2, early = idx / 6;     /* role 0 string, 1 bytes, 2 name */
    size_t l = (size_t) INT32_MAX - (size_t) lenv, n = 0;
    *kind = role == 2 ? VK_OBJ : VK_ARR;
    b[n++] = role == 2 ? 0x40 : 0x42;
    b[n++] = role == 1 ? 0x1a : 0x16;
    for (int i = 0; i < 4; i++) b[n++] = (uint8_t) (l >> (8 * i));
    size_t pay = n;
    n += l;
    /* the bytes around the end of the payload (the mapping is zero-filled; earlier cases wrote here too) */
    memset(b + pay + l - 8, 'x', 8 + 3);
    if (early) n--;
    if (role == 2) b[n++] = 0x44;
    b[n++] = role == 2 ? 0x41 : 0x43;
    return n;
}
static bool giant_eval(int idx, bool counting)
{
    int kind;
    size_t n = giant_build(idx, &kind);
    static char label[100];
    if (!n) return true;        /* no address space for the mapping: nothing to evaluate */
    snprintf(label, sizeof label, "giant family case %d: %s of %s bytes%s", idx, idx % 3 == 0 ? "string" : idx % 3 == 1 ? "bytes" : "name", (idx / 3) % 2 ? "INT32_MAX - 1" : "INT32_MAX",
             idx / 6 ? ", closing byte one position early" : "");
    cur_in = giant_arena; cur_n = n; cur_kind = kind; cur_md = 2; cur_label = label;
    int ref = vf_ref_decode(giant_arena, n, kind, 2, NULL);
    binson_err err;
    bool r = impl_verify(giant_arena, n, kind, 2, &err);
    if (counting) { vf_count(CT_EVALS, 1); vf_count(CT_WIDTH_CASES, 1); vf_count(ref == VR_OK ? CT_ACCEPTED : ref == VR_RANGE ? CT_REJ_RANGE : CT_REJ_FORMAT, 1); }
    if (r == (ref == VR_OK)) return true;
    char msg[300], sig[160];
    snprintf(msg, sizeof msg, "verify returned %s (error %d) but the reference recogniser says %s", r ? "true" : "false", (int) err, vf_vr_name[ref]);
    snprintf(sig, sizeof sig, "verify:%s:ref=%s", r ? "accepts-malformed" : "rejects-wellformed", vf_vr_name[ref]);
    if (counting) {
        vf_str t = { 0 };
        vf_str_printf(&t, "giant_case: %d\ninput_label: %s\nmismatch: %s\n", idx, label, msg);
        vf_violation(sig, t.s);
        vf_str_free(&t);
    } else printf("replay: %s\n", msg);
    return false;
}
static void giant_family(void)
{
    for (int i = 0; i < GIANT_CASES; i++) if (take()) giant_eval(i, true);
}

/* two adjacent names sharing a long common prefix, in every order relation: a comparison that truncates its length
 * (8 / 16 bits), stops at a NUL or mis-handles the prefix rule shows only here */
static void name_order_family(void)
{
    static const size_t plen[] = { 0, 1, 126, 127, 128, 254, 255, 256, 257, 32766, 32767, 32768, 65534, 65535, 65536, 65537 };
    static const struct { const char *s[2]; size_t l[2]; } suf[] = {
        { { "a", "b" }, { 1, 1 } }, { { "b", "a" }, { 1, 1 } }, { { "a", "a" }, { 1, 1 } }, { { "a", "ab" }, { 1, 2 } }, { { "ab", "a" }, { 2, 1 } }, { { "b", "ax" }, { 1, 2 } },
        { { "", "a" }, { 0, 1 } }, { { "a", "" }, { 1, 0 } }, { { "", "" }, { 0, 0 } },
        /* names that agree up to and including an embedded 0x00 and differ only after it (a comparison that stops at the NUL sees them as equal) */
        { { "k\0a", "k\0b" }, { 3, 3 } }, { { "k\0b", "k\0a" }, { 3, 3 } }, { { "k\0b", "k\0aa" }, { 3, 4 } }, { { "\0", "\0\0" }, { 1, 2 } }, { { "\0\0", "\0" }, { 2, 1 } },
        /* two differences inside one 8-byte word that order the names in opposite ways (a word-at-a-time comparison without a byte-order fix) */
        /* same first byte, different lengths, neither a prefix of the other: the longer one is the smaller (a length shortcut taken before the bytes are compared) */
        { { "aab", "ab" }, { 3, 2 } }, { { "ab", "aab" }, { 2, 3 } }, { { "ice", "id" }, { 3, 2 } }, { { "b", "aaa" }, { 1, 3 } },
        { { "temp_max", "temp_min" }, { 8, 8 } }, { { "temp_min", "temp_max" }, { 8, 8 } }, { { "qqqqqqaz", "qqqqqqba" }, { 8, 8 } }, { { "az", "ba" }, { 2, 2 } }, { { "aqqqqqqqz", "bqqqqqqqa" }, { 9, 9 } }
    };
    static uint8_t doc[140000], P[65537];
    char label[120];
    memset(P, 'p', sizeof P);
    for (size_t pi = 0; pi < sizeof plen / sizeof plen[0]; pi++)
        for (size_t si = 0; si < sizeof suf / sizeof suf[0]; si++) {
            if (!take()) continue;
            size_t n = 0;
            doc[n++] = 0x40;
            for (int k = 0; k < 2; k++) {
                size_t l = plen[pi] + suf[si].l[k];
                if (l <= 127) { doc[n++] = 0x14; doc[n++] = (uint8_t) l; }
                else if (l <= 32767) { doc[n++] = 0x15; doc[n++] = (uint8_t) l; doc[n++] = (uint8_t) (l >> 8); }
                else { doc[n++] = 0x16; doc[n++] = (uint8_t) l; doc[n++] = (uint8_t) (l >> 8); doc[n++] = (uint8_t) (l >> 16); doc[n++] = 0; }
                memcpy(doc + n, P, plen[pi]); n += plen[pi];
                memcpy(doc + n, suf[si].s[k], suf[si].l[k]); n += suf[si].l[k];
                doc[n++] = 0x44;
            }
            doc[n++] = 0x41;
            snprintf(label, sizeof label, "name order: common prefix of %zu bytes, suffix pair #%zu", plen[pi], si);
            vf_count(CT_WIDTH_CASES, 1);
            eval_input(doc, n, label, VK_OBJ);
        }
    /* one name a proper prefix of the other, length difference d on both sides of every power of two (a difference narrowed to 8 or 16 bits
       orders them wrongly or calls them equal): shorter first (well-formed) and longer first (malformed) */
    static const size_t alen[] = { 0, 1, 5, 200 };
    for (size_t ai = 0; ai < sizeof alen / sizeof alen[0]; ai++)
        for (int k = 1; k <= 16; k++) for (int dd = -1; dd <= 1; dd++) for (int order = 0; order < 2; order++) {
            size_t d = ((size_t) 1 << k) + (size_t) dd;
            if (d < 2 || (dd == -1 && k == 2) || alen[ai] + d > sizeof P) continue;
            if (!take()) continue;
            size_t n = 0;
            doc[n++] = 0x40;
            for (int m = 0; m < 2; m++) {
                size_t l = alen[ai] + ((m == order) ? 0 : d);
                if (l <= 127) { doc[n++] = 0x14; doc[n++] = (uint8_t) l; }
                else if (l <= 32767) { doc[n++] = 0x15; doc[n++] = (uint8_t) l; doc[n++] = (uint8_t) (l >> 8); }
                else { doc[n++] = 0x16; doc[n++] = (uint8_t) l; doc[n++] = (uint8_t) (l >> 8); doc[n++] = (uint8_t) (l >> 16); doc[n++] = 0; }
                memcpy(doc + n, P, l); n += l;
                doc[n++] = 0x44;
            }
            doc[n++] = 0x41;
            snprintf(label, sizeof label, "name order: %zu-byte name and its extension by %zu bytes, %s first", alen[ai], d, order == 0 ? "shorter" : "longer");
            vf_count(CT_WIDTH_CASES, 1);
            eval_input(doc, n, label, VK_OBJ);
        }
    /* wide containers */
    static const int ns[] = { 255, 256, 257, 65535, 65536, 65537 };
    static uint8_t wide[70000 * 8];
    for (size_t ni = 0; ni < sizeof ns / sizeof ns[0]; ni++)
        for (int variant = 0; variant < 3; variant++) {
            if (!take()) continue;
            size_t n = 0;
            int cnt = ns[ni];
            if (variant == 0) { wide[n++] = 0x42; for (int i = 0; i < cnt; i++) { wide[n++] = 0x10; wide[n++] = (uint8_t) (i & 0x7f); } wide[n++] = 0x43; }
            else {
                wide[n++] = 0x40;
                for (int i = 0; i < cnt; i++) {
                    int j = (variant == 2 && i == cnt - 1) ? i - 1 : i;       /* variant 2: the LAST name repeats its predecessor -> malformed */
                    wide[n++] = 0x14; wide[n++] = 4; wide[n++] = (uint8_t) ('a' + j / 17576 % 26); wide[n++] = (uint8_t) ('a' + j / 676 % 26); wide[n++] = (uint8_t) ('a' + j / 26 % 26); wide[n++] = (uint8_t) ('a' + j % 26);
                    wide[n++] = 0x45;
                }
                wide[n++] = 0x41;
            }
            snprintf(label, sizeof label, "wide container variant %d with %d members", variant, cnt);
            vf_count(CT_WIDTH_CASES, 1);
            eval_input(wide, n, label, variant == 0 ? VK_ARR : VK_OBJ);
        }
}

static void towers(void)
{
    static uint8_t t[4096];
    char label[100];
    static const int depths[] = { 1, 2, 3, 10, 255 };
    for (int di = 0; di < 5; di++) {
        int d = depths[di];
        for (int k = d - 2; k <= d + 2; k++) {
            if (k < 1) continue;
            for (int variant = 0; variant < 4; variant++) {
                if (!take()) continue;
                size_t n = 0;
                int kind = VK_OBJ;
                if (variant == 0) {             /* k nested objects */
                    for (int i = 0; i < k; i++) { t[n++] = 0x40; if (i < k - 1) { t[n++] = 0x14; t[n++] = 0x01; t[n++] = 'a'; } }
                    for (int i = 0; i < k; i++) t[n++] = 0x41;
                } else if (variant == 1) {      /* array root with k nested objects */
                    kind = VK_ARR; t[n++] = 0x42;
                    for (int i = 0; i < k; i++) { t[n++] = 0x40; if (i < k - 1) { t[n++] = 0x14; t[n++] = 0x01; t[n++] = 'a'; } }
                    for (int i = 0; i < k; i++) t[n++] = 0x41;
                    t[n++] = 0x43;
                } else if (variant == 2) {      /* objects alternating with arrays */
                    for (int i = 0; i < k; i++) { t[n++] = 0x40; if (i < k - 1) { t[n++] = 0x14; t[n++] = 0x01; t[n++] = 'a'; t[n++] = 0x42; } }
                    for (int i = 0; i < k; i++) { t[n++] = 0x41; if (i < k - 1) t[n++] = 0x43; }
                } else {                        /* too-deep nesting FOLLOWED by a format error: nesting must be reported, it comes first */
                    for (int i = 0; i < k; i++) { t[n++] = 0x40; if (i < k - 1) { t[n++] = 0x14; t[n++] = 0x01; t[n++] = 'a'; } }
                    t[n++] = 0x47;
                    for (int i = 0; i < k; i++) t[n++] = 0x41;
                }
                snprintf(label, sizeof label, "tower variant %d: k=%d around max_depth %d", variant, k, d);
                vf_count(CT_TOWERS, 1);
                eval_input(t, n, label, kind);
            }
        }
    }
    for (int k = 253; k <= 258; k++)
        for (int variant = 0; variant < 3; variant++) {
            if (!take()) continue;
            size_t n = 0;
            int kind = VK_ARR;
            if (variant == 0) { for (int i = 0; i < k; i++) t[n++] = 0x42; for (int i = 0; i < k; i++) t[n++] = 0x43; }
            else if (variant == 1) {
                kind = VK_OBJ; t[n++] = 0x40; t[n++] = 0x14; t[n++] = 0x01; t[n++] = 'a';
                for (int i = 0; i < k; i++) t[n++] = 0x42;
                for (int i = 0; i < k; i++) t[n++] = 0x43;
                t[n++] = 0x41;
            } else {    /* the counter is per object level: [ x200 { "a": [ x200 ] } ] is fine */
                int h = k - 100;
                for (int i = 0; i < h; i++) t[n++] = 0x42;
                t[n++] = 0x40; t[n++] = 0x14; t[n++] = 0x01; t[n++] = 'a';
                for (int i = 0; i < h; i++) t[n++] = 0x42;
                for (int i = 0; i < h; i++) t[n++] = 0x43;
                t[n++] = 0x41;
                for (int i = 0; i < h; i++) t[n++] = 0x43;
            }
            snprintf(label, sizeof label, "array tower variant %d: k=%d", variant, k);
            vf_count(CT_TOWERS, 1);
            eval_input(t, n, label, kind);
        }
}

static void corpus(const char *dir)
{
    char path[512];
    snprintf(path, sizeof path, "%s/utest/test_data/%s", getenv("VERIF_REPO") ? getenv("VERIF_REPO") : "/repo", dir);
    struct dirent **list;
    int n = scandir(path, &list, NULL, alphasort);
    if (n < 0) return;
    static uint8_t b[65536];
    for (int i = 0; i < n; i++) {
        if (list[i]->d_name[0] != '.' && take()) {
            char f[800];
            snprintf(f, sizeof f, "%s/%s", path, list[i]->d_name);
            FILE *fp = fopen(f, "rb");
            if (fp) {
                size_t l = fread(b, 1, sizeof b, fp);
                fclose(fp);
                vf_count(CT_CORPUS, 1);
                eval_input(b, l, f, 0);
            }
        }
        free(list[i]);
    }
    free(list);
}

static int L_FRAMED, L_CORE, N_DOC;
static void worker(int w, int W, uint64_t start)
{
    g_w = w; g_W = W; g_start = start; g_index = 0;
    vf_fatal_describe = describe;
    scratch = (uint8_t *) vf_xmalloc(SCRATCH);
    mscratch1 = (uint8_t *) vf_xmalloc(4096); mscratch2 = (uint8_t *) vf_xmalloc(4096);
    DEPTHS = depths_full; NDEPTHS = 5;
    towers();
    width_family();
    trailing_family();
    giant_family();
    name_order_family();
    corpus("valid_objects");
    corpus("bad_objects");
    /* token sequences: partitioned inside the enumerator */
    vf_tokenum e;
    uint64_t nodes = 0;
    if (start == 0) {
        for (int frame = 0; frame <= 2; frame++) {
            memset(&e, 0, sizeof e);
            e.alpha = vf_tok_hostile; e.ntok = VF_NTOK_HOSTILE;
            e.maxlen = frame == 0 ? 3 : L_FRAMED;
            e.frame = frame == 0 ? 0 : (frame == 1 ? VK_OBJ : VK_ARR);
            e.cb = on_seq; e.w = w; e.W = W;
            vf_tokenum_run(&e);
            nodes += e.nodes;
        }
        /* deeper, over the core alphabet (one representative per behaviour class), two depth configurations */
        if (L_CORE > L_FRAMED) {
            DEPTHS = depths_two; NDEPTHS = 2;
            for (int frame = 1; frame <= 2; frame++) {
                memset(&e, 0, sizeof e);
                e.alpha = vf_tok_hostile; e.idx = vf_tok_core_idx; e.ntok = VF_NTOK_CORE;
                e.maxlen = L_CORE; e.frame = frame == 1 ? VK_OBJ : VK_ARR;
                e.cb = on_seq; e.w = w; e.W = W;
                vf_tokenum_run(&e);
                nodes += e.nodes;
            }
            DEPTHS = depths_full; NDEPTHS = 5;
        }
        if (w == 0) vf_count(CT_NODES, nodes);
    } else vf_g.sh[vf_g.wid].cap_hit = 1;
    /* valid documents over all leaf kinds and widths, and their mutants */
    static const int cls[] = { LC_INT8, LC_INT16, LC_NEG32, LC_INT64, LC_STR, LC_STR0, LC_STR128, LC_BYT, LC_BYT0, LC_DBL, LC_TRUE, LC_FALSE, LC_OBJ, LC_ARR };
    static vf_gen g;
    for (int root = VK_OBJ; root <= VK_ARR; root++) {
        memset(&g, 0, sizeof g);
        g.root_kind = root; g.max_tokens = N_DOC; g.classes = cls; g.nclasses = 14; g.names = vf_names_abc; g.nnames = 2; g.max_obj_depth = 0;
        g.cb = on_doc;
        vf_gen_run(&g);
    }
    /* sibling family: every pair of small sibling subtrees (inner names "" and "a") with all their mutants (thorough: triples too);
     * every triple as it is */
    memset(&g, 0, sizeof g);
    g.cb = on_doc;
    vf_sibling_run_ar(&g, 2, vf_g.thorough ? 3 : 2);
    if (!vf_g.thorough) { memset(&g, 0, sizeof g); g.cb = on_doc_nomut; vf_sibling_run_ar(&g, 3, 3); }
}

static void replay_main(void)
{
    char *t = vf_replay_load(vf_g.replay);
    char *root = vf_replay_get(t, "root"), *md = vf_replay_get(t, "max_depth"), *hex = vf_replay_get(t, "input_hex"), *gc = vf_replay_get(t, "giant_case");
    if (gc) {
        vf_g.wid = 0;
        if (!giant_eval(atoi(gc), false)) { printf("VIOLATION property=%s replay=%s\n", vf_g.prop, vf_g.replay); exit(VF_EXIT_VIOLATION); }
        printf("replay: verify agrees with the reference recogniser\n");
        exit(VF_EXIT_OK);
    }
    if (!root || !md || !hex) vf_die("replay file lacks root/max_depth/input_hex");
    static uint8_t bytes[600000];
    long n = vf_unhex(bytes, sizeof bytes, hex);
    if (n < 0) vf_die("bad input_hex");
    scratch = (uint8_t *) vf_xmalloc(SCRATCH);
    vf_g.wid = 0;
    if (!eval_one(bytes, (size_t) n, !strcmp(root, "object") ? VK_OBJ : VK_ARR, atoi(md), "replay", false)) {
        printf("VIOLATION property=%s replay=%s\n", vf_g.prop, vf_g.replay);
        exit(VF_EXIT_VIOLATION);
    }
    printf("replay: verify agrees with the reference recogniser\n");
    exit(VF_EXIT_OK);
}

int main(int argc, char **argv)
{
    vf_main_init(argc, argv, "verify", ctr_names);
    if (strcmp(vf_g.prop, "C02")) vf_die("verify decides C02");
    L_FRAMED = vf_g.thorough ? 5 : 4; L_CORE = vf_g.thorough ? 6 : 5; N_DOC = vf_g.thorough ? 4 : 3; MUT_D = vf_g.thorough ? 2 : 1;
    const char *e;
    if ((e = getenv("VERIF_L"))) L_FRAMED = atoi(e);
    if ((e = getenv("VERIF_LCORE"))) L_CORE = atoi(e);
    if ((e = getenv("VERIF_N"))) N_DOC = atoi(e);
    if ((e = getenv("VERIF_MUTD"))) MUT_D = atoi(e);
    if (vf_g.replay) replay_main();
    int deaths = vf_run_workers(worker);
    static char bound[2600];
    snprintf(bound, sizeof bound,
             "every sequence of <= %d tokens over the %d-token hostile alphabet framed as object and as array (both init kinds up to length 3), every unframed "
             "sequence of <= 3 tokens, every framed sequence of <= %d tokens over the %d-token core alphabet; every valid document with <= %d value tokens over 12 "
             "leaf classes (all integer widths, empty/short/2-byte-length strings, bytes, double, booleans) and ALL mutants at deviation distance <= %d (distance 2 "
             "for documents of <= 2 values); nesting towers k in d-2..d+2 for d in {1,2,3,10,255}, 253..258 nested arrays; integer/length width family (35 values x 4 "
             "widths x 4 roles), adjacent-name order family (16 common-prefix lengths up to 65537 x 23 suffix pairs incl. names differing only after an embedded NUL and pairs whose first and last difference inside one 8-byte word disagree), prefix-pair family (a name and its extension by 2^k-1, 2^k, 2^k+1 bytes, k = 1..16, both orders), wide containers (255..65537 members); the %s corpus files; each x {object, array} x max_depth {1,2,3,10,255}",
             L_FRAMED, VF_NTOK_HOSTILE, L_CORE, VF_NTOK_CORE, N_DOC, MUT_D, "220+1571");
    static const char *const assumptions[] = {
        "the reference recogniser (lib/vf_ref.h) is a correct reading of BINSON-SPEC-1 / binson_defines.h; it shares no code with the library and is cross-checked against the generator's trees in every other check",
        "an array-rooted parser spends one state level on the root array (objects below nest to d-1); array nesting is counted per object level, root array included",
        "which of RANGE / FORMAT a malformed input yields is not part of the property and is not compared; only the MAX_DEPTH_* codes are"
    };
    static const int must[] = { CT_ACCEPTED, CT_REJ_RANGE, CT_REJ_FORMAT, CT_REJ_MAXOBJ, CT_REJ_MAXARR, CT_TOWERS, CT_CORPUS, CT_MUT1, CT_TOK_SEQS, CT_WIDTH_CASES };
    vf_evidence_spec es;
    memset(&es, 0, sizeof es);
    es.c_states = CT_INPUTS; es.c_transitions = CT_EVALS; es.c_validated = CT_EVALS;
    snprintf(bound + strlen(bound), sizeof bound - strlen(bound), "%s", "; later additions: every string / bytes / name length 0..1100 (thorough 0..70000) in every prefix width, exact and one byte short; a complete root followed by 1..262144 junk "
             "bytes; a string, a bytes value and a name of INT32_MAX and INT32_MAX - 1 bytes in a lazily backed 2 GiB mapping; every pair of small sibling subtrees with all mutants and every "
             "triple; name pairs with the same first byte and different lengths");
    es.bound = bound;
    es.rule = "exhaustive enumeration (prefix tree of token sequences; grammar-directed documents; all mutants); states = distinct inputs enumerated, transitions = real init+verify executions, each compared with the reference recogniser";
    es.assumptions = assumptions; es.nassumptions = 3;
    es.must_be_nonzero = must; es.n_must = 10;
    return vf_finish(&es, deaths);
}
