/* stream.c - C08: a streaming traversal is exactly as strict as verify.
 * For every enumerated byte string: breadth-first search over ALL adaptive
 * application strategies. The application state is only what a real program
 * knows: the stack of containers it entered and the type the parser last
 * reported. Every strategy that ends by leaving the root is compared with the
 * verdict of binson_parser_verify on a fresh parser. */
#include "../lib/vf_util.h"
#include "../lib/vf_ref.h"
#include "../lib/vf_gen.h"
#include "../lib/vf_run.h"
#include "../lib/vf_snap.h"

enum {
    CT_INPUTS, CT_CONFIGS, CT_INIT_REJECTED, CT_VALID, CT_INVALID, CT_STATES, CT_TRANS, CT_TERMINALS_OK, CT_FAILED_CALLS_INVALID, CT_DEAD_PATHS_INVALID,
    CT_LOOKUPS, CT_RAW, CT_EARLY_LEAVE, CT_MAXSTATES, CT_MUT, CT_DOCS, CT_TOWERS, CT_INVALID_WITH_LONG_PATH, CT_REF_DISAGREES
};
static const char *const ctr_names[VF_NCTR] = {
    "inputs", "input_configurations", "init_rejected_configurations", "configurations_verify_accepts", "configurations_verify_rejects", "states",
    "transitions", "successful_terminals_on_valid_documents", "failing_calls_on_invalid_documents", "strategy_paths_ended_by_failure_on_invalid_documents",
    "lookups", "get_raw_calls", "leaves_with_unvisited_elements", "max_states_one_configuration", "mutant_inputs", "valid_documents", "tower_inputs",
    "invalid_inputs_with_successful_path_of_3plus_calls", "verify_vs_reference_disagreements_left_to_C02"
};

#define APPMAX 260
typedef struct { int16_t sp; int8_t last, done; int8_t st[APPMAX]; } app;     /* last: 0 none, 'O', 'A', 'v' (other value) */
#define AHEAD offsetof(app, st)
static int KFS = 16;            /* stack entries stored in the visited-set key (>= nesting of the input + 1) */
static inline size_t akey_size(void) { return AHEAD + (size_t) KFS; }
static inline void apack(uint8_t *dst, const app *a) { memcpy(dst, a, AHEAD); memcpy(dst + AHEAD, a->st, (size_t) KFS); }
static inline void aunpack(app *a, const uint8_t *src) { memset(a, 0, sizeof *a); memcpy(a, src, AHEAD); memcpy(a->st, src + AHEAD, (size_t) KFS); }

enum { S_NEXT, S_INTO_OBJ, S_INTO_ARR, S_LEAVE_OBJ, S_LEAVE_ARR, S_RAW, S_FIELD_A, S_FIELD_B, S_FIELD_E, S_FIELD_AB, S_RESET, S_NOPS };
static const char *const opname[S_NOPS] = { "next", "go_into_object", "go_into_array", "leave_object", "leave_array", "get_raw", "field(\"a\")", "field(\"b\")",
                                            "field(\"\")", "field(\"ab\")", "reset" };

static vf_live L;
static int MD, KIND;
static const uint8_t *IN; static size_t INLEN; static const char *INLABEL;
static vf_set SET; static size_t SET_REC;
static uint32_t *PARENT; static uint8_t *OPOF; static size_t PCAP;
static size_t cur_state; static int cur_op = -1, cur_in_bfs;
static uint8_t cur_hist[4096]; static int cur_nhist;

static int history_of(size_t s, uint8_t *out, int cap)
{
    int n = 0;
    while (s != 0) { if (n == cap) vf_die("history too long"); out[n++] = OPOF[s]; s = PARENT[s]; }
    for (int i = 0; i < n / 2; i++) { uint8_t t = out[i]; out[i] = out[n - 1 - i]; out[n - 1 - i] = t; }
    return n;
}
static void describe_case(vf_str *o, const uint8_t *h, int nh, int failing)
{
    vf_str_printf(o, "root: %s\nmax_depth: %d\ninput_hex: ", KIND == VK_OBJ ? "object" : "array", MD);
    vf_str_hex(o, IN, INLEN);
    vf_str_printf(o, "\ninput_label: %s\nops:", INLABEL ? INLABEL : "");
    for (int i = 0; i < nh; i++) vf_str_printf(o, " %d", h[i]);
    if (failing >= 0) vf_str_printf(o, " %d", failing);
    vf_str_printf(o, "\nops_readable:");
    for (int i = 0; i < nh; i++) vf_str_printf(o, " %s", opname[h[i]]);
    if (failing >= 0) vf_str_printf(o, " %s", opname[failing]);
    vf_str_printf(o, "\n");
}
static void fatal_describe(vf_str *o)
{
    if (cur_in_bfs) cur_nhist = history_of(cur_state, cur_hist, 4096);
    describe_case(o, cur_hist, cur_nhist, cur_op);
}

static bool enabled(const app *a, int op)
{
    if (a->done) return false;
    int top = a->sp ? a->st[a->sp - 1] : 0;
    switch (op) {
    case S_NEXT: return a->sp > 0;
    case S_INTO_OBJ: return a->sp == 0 ? KIND == VK_OBJ : (a->last == 'O' && a->sp < KFS - 1);
    case S_INTO_ARR: return a->sp == 0 ? KIND == VK_ARR : (a->last == 'A' && a->sp < KFS - 1);
    case S_LEAVE_OBJ: return top == 'O';
    case S_LEAVE_ARR: return top == 'A';
    case S_RAW: return a->sp > 0 && (a->last == 'O' || a->last == 'A');
    case S_RESET: return a->sp > 0;     /* abandon the traversal and start over: the restarted one must be judged like a first one */
    default: return top == 'O';
    }
}
/* returns: 1 = call fine, 0 = a call that must succeed returned false (the traversal has failed) */
static int step(app *a, int op)
{
    binson_parser *p = L.p;
    bool r;
    bbuf raw;
    vf_progress++;
    cur_op = op;
    vf_stack_paint();
    switch (op) {
    case S_NEXT: r = binson_parser_next(p); a->last = 0; if (r) { binson_type t = binson_parser_get_type(p); a->last = t == BINSON_TYPE_OBJECT ? 'O' : t == BINSON_TYPE_ARRAY ? 'A' : 'v'; } return 1;
    case S_INTO_OBJ: r = binson_parser_go_into_object(p); a->last = 0; if (r) a->st[a->sp++] = 'O'; return r;
    case S_INTO_ARR: r = binson_parser_go_into_array(p); a->last = 0; if (r) a->st[a->sp++] = 'A'; return r;
    case S_LEAVE_OBJ: case S_LEAVE_ARR:
        r = op == S_LEAVE_OBJ ? binson_parser_leave_object(p) : binson_parser_leave_array(p);
        a->last = 0;
        if (r) { a->sp--; a->st[a->sp] = 0; if (a->sp == 0) a->done = 1; }
        return r;
    case S_RAW: r = binson_parser_get_raw(p, &raw); a->last = 0; return r;
    case S_RESET: r = binson_parser_reset(p); memset(a, 0, sizeof *a); return r;
    default: {
        static const char *const q[] = { "a", "b", "", "ab" };
        if (op < S_FIELD_A || op > S_FIELD_AB) vf_die("bad op");
        r = binson_parser_field(p, q[op - S_FIELD_A]);
        a->last = 0;
        if (r) { binson_type t = binson_parser_get_type(p); a->last = t == BINSON_TYPE_OBJECT ? 'O' : t == BINSON_TYPE_ARRAY ? 'A' : 'v'; }
        return 1;
    }
    }
}

static bool do_init(void)
{
    vf_live_alloc(&L, IN, INLEN, MD, 0);
    return KIND == VK_OBJ ? binson_parser_init_object(L.p, vf_live_bufptr(&L), L.len) : binson_parser_init_array(L.p, vf_live_bufptr(&L), L.len);
}
static bool fresh_verify(void)
{
    vf_live F;
    vf_live_alloc(&F, IN, INLEN, MD, 0);
    bool ok = KIND == VK_OBJ ? binson_parser_init_object(F.p, vf_live_bufptr(&F), F.len) : binson_parser_init_array(F.p, vf_live_bufptr(&F), F.len);
    bool v = binson_parser_verify(F.p);
    (void) ok;
    vf_live_free(&F);
    return v;
}

/* replays a history; returns a description of the outcome in out: "fail@i", "terminal-ok", "terminal-err", "open" */
static void run_history(const uint8_t *h, int n, char *out, size_t outn)
{
    cur_in_bfs = 0;
    if (!do_init()) { snprintf(out, outn, "init-rejected"); vf_live_free(&L); return; }
    app a;
    memset(&a, 0, sizeof a);
    snprintf(out, outn, "open");
    for (int i = 0; i < n; i++) {
        if (!enabled(&a, h[i])) { snprintf(out, outn, "not-enabled@%d", i); break; }
        memcpy(cur_hist, h, (size_t) i); cur_nhist = i;
        if (!step(&a, h[i])) { snprintf(out, outn, "fail@%d err=%d", i, (int) L.p->error_flags); break; }
        if (a.done) { snprintf(out, outn, L.p->error_flags == BINSON_ERROR_NONE ? "terminal-ok" : "terminal-err=%d", (int) L.p->error_flags); break; }
    }
    vf_live_free(&L);
}

static void report(size_t from, int op, const char *sig, const char *why, const char *expect_outcome)
{
    static uint8_t h[4100];
    int n = history_of(from, h, 4096);
    if (op >= 0) h[n++] = (uint8_t) op;
    vf_live keep = L;
    for (int k = 0; k < 2; k++) {
        char out[64];
        run_history(h, n, out, sizeof out);
        if (strncmp(out, expect_outcome, strlen(expect_outcome))) vf_die("stream violation did not reproduce: %s vs %s", out, expect_outcome);
    }
    L = keep;
    vf_str b = { 0 };
    describe_case(&b, h, n, -1);
    vf_str_printf(&b, "verify_accepts: %d\nmismatch: %s\n", (int) fresh_verify(), why);
    vf_violation(sig, b.s);
    vf_str_free(&b);
}

static void explore_config(void)
{
    /* key width: inputs with few BEGIN bytes cannot nest deeply */
    { size_t begins = 0; for (size_t i = 0; i < INLEN && begins < APPMAX; i++) if (IN[i] == 0x40 || IN[i] == 0x42) begins++; KFS = begins + 2 <= 16 ? 16 : APPMAX; }
    bool V = fresh_verify();
    int ref = vf_ref_decode(IN, INLEN, KIND, MD, NULL);
    if ((ref == VR_OK) != V) vf_count(CT_REF_DISAGREES, 1);
    vf_count(CT_CONFIGS, 1);
    vf_count(V ? CT_VALID : CT_INVALID, 1);
    if (!do_init()) {
        vf_count(CT_INIT_REJECTED, 1);
        if (V) {
            vf_str b = { 0 };
            describe_case(&b, NULL, 0, -1);
            vf_str_printf(&b, "mismatch: init rejects a buffer that verify accepts\n");
            vf_violation("stream:init-rejects-valid", b.s);
            vf_str_free(&b);
        }
        vf_live_free(&L);
        return;
    }
    size_t isz = vf_snap_size(MD), rec = isz + akey_size();
    if (rec != SET_REC) { if (SET_REC) vf_set_free(&SET); vf_set_init(&SET, rec); SET_REC = rec; } else vf_set_clear(&SET);
    uint8_t *key = (uint8_t *) alloca(rec);
    vf_snap snap;
    app a0;
    memset(&a0, 0, sizeof a0);
    vf_snap_save(&snap, &L);
    memcpy(key, &snap, isz); apack(key + isz, &a0);
    bool isnew;
    vf_set_insert(&SET, key, &isnew);
    cur_in_bfs = 1;
    bool longpath = false;
    for (size_t s = 0; s < SET.n; s++) {
        app as;
        aunpack(&as, vf_set_at(&SET, s) + isz);
        for (int op = 0; op < S_NOPS; op++) {
            if (!enabled(&as, op)) continue;
            memcpy(&snap, vf_set_at(&SET, s), isz);
            vf_snap_load(&L, &snap);
            app a = as;
            cur_state = s;
            int ok = step(&a, op);
            vf_count(CT_TRANS, 1);
            if (op >= S_FIELD_A && op <= S_FIELD_AB) vf_count(CT_LOOKUPS, 1);
            if (op == S_RAW) vf_count(CT_RAW, 1);
            if (!ok) {
                if (V) {
                    char sig[160], why[200], exp[32];
                    snprintf(sig, sizeof sig, "stream:valid-doc-call-fails:%s:err=%d", opname[op], (int) L.p->error_flags);
                    snprintf(why, sizeof why, "verify accepts the bytes but %s returned false (error_flags=%d) on a protocol-following traversal", opname[op], (int) L.p->error_flags);
                    int n = 0; { size_t t = s; while (t) { n++; t = PARENT[t]; } }
                    snprintf(exp, sizeof exp, "fail@%d", n);
                    report(s, op, sig, why, exp);
                } else { vf_count(CT_FAILED_CALLS_INVALID, 1); vf_count(CT_DEAD_PATHS_INVALID, 1); }
                continue;
            }
            if (a.done) {
                bool clean = L.p->error_flags == BINSON_ERROR_NONE;
                if (V && !clean) {
                    char sig[160], why[200];
                    snprintf(sig, sizeof sig, "stream:valid-doc-terminal-error:err=%d", (int) L.p->error_flags);
                    snprintf(why, sizeof why, "verify accepts the bytes but the traversal ends with error_flags=%d", (int) L.p->error_flags);
                    report(s, op, sig, why, "terminal-err");
                } else if (!V && clean) {
                    char why[200];
                    snprintf(why, sizeof why, "verify REJECTS the bytes but this traversal ends with every call successful and no error");
                    report(s, op, "stream:invalid-doc-accepted", why, "terminal-ok");
                } else if (V) vf_count(CT_TERMINALS_OK, 1); else vf_count(CT_DEAD_PATHS_INVALID, 1);
                continue;
            }
            if ((op == S_LEAVE_OBJ || op == S_LEAVE_ARR) && as.last) vf_count(CT_EARLY_LEAVE, 1);
            vf_snap_save(&snap, &L);
            memcpy(key, &snap, isz); apack(key + isz, &a);
            size_t idx = vf_set_insert(&SET, key, &isnew);
            if (isnew) {
                if (idx >= PCAP) { PCAP = PCAP ? PCAP * 2 : 4096; PARENT = (uint32_t *) vf_xrealloc(PARENT, PCAP * sizeof *PARENT); OPOF = (uint8_t *) vf_xrealloc(OPOF, PCAP); }
                PARENT[idx] = (uint32_t) s; OPOF[idx] = (uint8_t) op;
                if (!V && !longpath) { int n = 0; size_t t = idx; while (t) { n++; t = PARENT[t]; } if (n >= 3) longpath = true; }
            }
        }
    }
    cur_in_bfs = 0;
    if (longpath) vf_count(CT_INVALID_WITH_LONG_PATH, 1);
    vf_count(CT_STATES, SET.n);
    vf_max(CT_MAXSTATES, SET.n);
    if (vf_want_sample() && SET.n > 25) {
        static uint8_t h[4100];
        int n = history_of(SET.n - 1, h, 4096);
        if (n > 24) n = 24;
        vf_str s = { 0 };
        vf_str_printf(&s, "input %.200s (verify %s, max_depth %d): %zu strategy states; one strategy:", INLABEL, V ? "accepts" : "rejects", MD, SET.n);
        for (int i = 0; i < n; i++) vf_str_printf(&s, " %s", opname[h[i]]);
        vf_sample("%s", s.s);
        vf_str_free(&s);
    }
    vf_live_free(&L);
}

static const int *DEPTHS; static int NDEPTHS;
static const int depths3[] = { 1, 2, 3 }; static const int depths1[] = { 2 };
static void process_input(const uint8_t *b, size_t n, const char *label, int only_kind)
{
    IN = b; INLEN = n; INLABEL = label;
    vf_count(CT_INPUTS, 1);
    for (int k = VK_OBJ; k <= VK_ARR; k++) {
        if (only_kind && only_kind != k) continue;
        for (int d = 0; d < NDEPTHS; d++) { KIND = k; MD = DEPTHS[d]; explore_config(); }
    }
}

static int g_w, g_W; static uint64_t g_start, g_index;
static bool take(void)
{
    uint64_t i = g_index++;
    if (i < g_start || (int) (i % (uint64_t) g_W) != g_w) return false;
    vf_set_index(i);
    return true;
}
static void on_seq(vf_tokenum *e, void *u)
{
    (void) u;
    if ((e->index & 0x3ff) == 0 && vf_deadline_passed()) { e->stop = true; return; }
    if (!take()) return;
    process_input(e->buf, e->len, vf_tokenum_label(e), e->frame);
}
static char mlabel[400];
static void on_mut(const uint8_t *m, size_t n, const char *what, void *u)
{
    const vf_doc *d = (const vf_doc *) u;
    if (!take()) return;
    snprintf(mlabel, sizeof mlabel, "mutant of %s: %s", vf_shape(d), what);
    vf_count(CT_MUT, 1);
    process_input(m, n, mlabel, 0);
}
static uint8_t *mscratch;
static void on_doc(vf_gen *g, void *u)
{
    (void) u;
    static uint8_t mask[4096];
    if (vf_deadline_passed()) { g->stop = true; return; }
    if (take()) { vf_count(CT_DOCS, 1); process_input(g->doc.bytes, g->doc.len, vf_shape(&g->doc), 0); }
    if (g->doc.len > sizeof mask) return;
    vf_mask_long_payloads(&g->doc, mask);
    vf_mut_mask = mask;
    vf_mutants(g->doc.bytes, g->doc.len, mscratch, 4096, on_mut, &g->doc);
    vf_mut_mask = NULL;
}
static void towers(void)
{
    static uint8_t t[256];
    char label[100];
    for (int d = 1; d <= 3; d++)
        for (int k = d; k <= d + 1; k++)
            for (int variant = 0; variant < 3; variant++) {
                if (!take()) continue;
                size_t n = 0;
                int kind = VK_OBJ;
                if (variant == 0) { for (int i = 0; i < k; i++) { t[n++] = 0x40; if (i < k - 1) { t[n++] = 0x14; t[n++] = 0x01; t[n++] = 'a'; } } for (int i = 0; i < k; i++) t[n++] = 0x41; }
                else if (variant == 1) { kind = VK_ARR; t[n++] = 0x42; for (int i = 0; i < k; i++) { t[n++] = 0x40; if (i < k - 1) { t[n++] = 0x14; t[n++] = 0x01; t[n++] = 'a'; } } for (int i = 0; i < k; i++) t[n++] = 0x41; t[n++] = 0x43; }
                else { for (int i = 0; i < k; i++) { t[n++] = 0x40; t[n++] = 0x14; t[n++] = 0x01; t[n++] = 'a'; if (i < k - 1) t[n++] = 0x42; else t[n++] = 0x44; } for (int i = 0; i < k; i++) { t[n++] = 0x41; if (i < k - 1) t[n++] = 0x43; } }
                snprintf(label, sizeof label, "tower variant %d, %d objects", variant, k);
                vf_count(CT_TOWERS, 1);
                IN = t; INLEN = n; INLABEL = label; KIND = kind; MD = d;
                vf_count(CT_INPUTS, 1);
                explore_config();
            }
}

/* 254..256 nested arrays (the limit is 255), with an element after each inner array; root array and object field */
static void deep_towers(void)
{
    static uint8_t t[2048];
    char label[100];
    static const int ks[] = { 100, 127, 128, 129, 254, 255, 256 };
    for (size_t ki = 0; ki < sizeof ks / sizeof ks[0]; ki++)
        for (int variant = 0; variant < 2; variant++) {
            if (!take()) continue;
            int k = ks[ki];
            size_t n = 0;
            if (variant) { t[n++] = 0x40; t[n++] = 0x14; t[n++] = 1; t[n++] = 'a'; }
            for (int i = 0; i < k; i++) t[n++] = 0x42;
            t[n++] = 0x10; t[n++] = 1;
            for (int i = 0; i < k; i++) { t[n++] = 0x43; if (i < k - 1) t[n++] = 0x44; }
            if (variant) { t[n++] = 0x14; t[n++] = 1; t[n++] = 'b'; t[n++] = 0x45; t[n++] = 0x41; }
            snprintf(label, sizeof label, "tower: %d nested arrays%s", k, variant ? " in an object field" : "");
            vf_count(CT_TOWERS, 1);
            IN = t; INLEN = n; INLABEL = label; KIND = variant ? VK_OBJ : VK_ARR; MD = 2;
            vf_count(CT_INPUTS, 1);
            explore_config();
        }
}
/* rich towers: k nested arrays, each level holding an object with an array-valued field before the inner array and a boolean after it */
static void rich_towers(void)
{
    static uint8_t t[8192];
    char label[100];
    static const int ks[] = { 7, 8, 9, 15, 16, 17, 31, 32, 33, 63, 64, 65, 127, 128, 129, 253, 254 };
    static const uint8_t el[] = { 0x40, 0x14, 0x01, 'x', 0x42, 0x10, 0x01, 0x43, 0x41 };
    for (size_t ki = 0; ki < sizeof ks / sizeof ks[0]; ki++) {
        if (!take()) continue;
        int k = ks[ki];
        size_t n = 0;
        for (int i = 0; i < k; i++) { t[n++] = 0x42; memcpy(t + n, el, sizeof el); n += sizeof el; }
        t[n++] = 0x10; t[n++] = 1;
        for (int i = 0; i < k; i++) { t[n++] = 0x43; if (i < k - 1) t[n++] = 0x44; }
        snprintf(label, sizeof label, "rich tower: %d nested arrays, an object with an array field and a boolean at every level", k);
        vf_count(CT_TOWERS, 1);
        IN = t; INLEN = n; INLABEL = label; KIND = VK_ARR; MD = 2;
        vf_count(CT_INPUTS, 1);
        explore_config();
    }
}
static void on_trailing(const uint8_t *b, size_t n, int kind, const char *label, void *u)
{
    (void) u;
    if (!take()) return;
    vf_count(CT_TOWERS, 1);
    DEPTHS = depths1; NDEPTHS = 1;
    process_input(b, n, label, kind);
    DEPTHS = depths3; NDEPTHS = 3;
}
static void on_doc_sib(vf_gen *g, void *u)
{
    (void) u;
    if (vf_deadline_passed()) { g->stop = true; return; }
    if (take()) { vf_count(CT_DOCS, 1); process_input(g->doc.bytes, g->doc.len, vf_shape(&g->doc), g->doc.root_kind); }
}
static void on_doc_big(vf_gen *g, void *u)
{
    (void) u;
    static uint8_t mask[200000];
    if (vf_deadline_passed()) { g->stop = true; return; }
    if (g->doc.len > sizeof mask) return;
    if (take()) { vf_count(CT_DOCS, 1); process_input(g->doc.bytes, g->doc.len, vf_shape(&g->doc), g->doc.root_kind); }
    vf_mask_long_payloads(&g->doc, mask);
    vf_mut_mask = mask;
    static uint8_t *big_scratch;
    if (!big_scratch) big_scratch = (uint8_t *) vf_xmalloc(200100);
    vf_mutants(g->doc.bytes, g->doc.len, big_scratch, 200100, on_mut, &g->doc);
    vf_mut_mask = NULL;
}

static int L_HOSTILE, L_CORE, N_DOC;
static void worker(int w, int W, uint64_t start)
{
    g_w = w; g_W = W; g_start = start; g_index = 0;
    vf_fatal_describe = fatal_describe;
    mscratch = (uint8_t *) vf_xmalloc(4096);
    DEPTHS = depths3; NDEPTHS = 3;
    towers();
    deep_towers();
    rich_towers();
    vf_trailing_inputs(on_trailing, NULL);      /* a complete root followed by 1 .. 262144 junk bytes */
    /* values / names that need the 4-byte length prefix, and all their one-deviation mutants outside the payload interior */
    {
        static const int clsb[] = { LC_INT8, LC_STR32K, LC_BYT32K, LC_OBJ, LC_ARR };
        static vf_gen gb;
        DEPTHS = depths1; NDEPTHS = 1;
        static const size_t hl[] = { 32768, 65537, 65531, 65794 };      /* names a, b and one of 32768 / 65537 (thorough: 65531, 65794) bytes */
        for (int h = 0; h < (vf_g.thorough ? 4 : 2); h++)
            for (int root = VK_OBJ; root <= VK_ARR; root++) {
                memset(&gb, 0, sizeof gb);
                gb.root_kind = root; gb.max_tokens = 2; gb.classes = clsb; gb.nclasses = h ? 3 : 5; gb.names = vf_names_abH_len(hl[h]); gb.nnames = 3; gb.cb = on_doc_big;
                if (h) { static const int clsh[] = { LC_INT8, LC_OBJ, LC_ARR }; gb.classes = clsh; }
                vf_gen_run(&gb);
            }
        DEPTHS = depths3; NDEPTHS = 3;
    }
    vf_tokenum e;
    for (int frame = 1; frame <= 2; frame++) {
        memset(&e, 0, sizeof e);
        e.alpha = vf_tok_hostile; e.ntok = VF_NTOK_HOSTILE; e.maxlen = L_HOSTILE; e.frame = frame == 1 ? VK_OBJ : VK_ARR;
        e.cb = on_seq; e.w = 0; e.W = 1;
        vf_tokenum_run(&e);
    }
    DEPTHS = depths1; NDEPTHS = 1;
    for (int frame = 1; frame <= 2; frame++) {
        memset(&e, 0, sizeof e);
        e.alpha = vf_tok_hostile; e.idx = vf_tok_core_idx; e.ntok = VF_NTOK_CORE; e.maxlen = L_CORE; e.frame = frame == 1 ? VK_OBJ : VK_ARR;
        e.cb = on_seq; e.w = 0; e.W = 1;
        vf_tokenum_run(&e);
    }
    DEPTHS = depths3; NDEPTHS = 3;
    static const int cls[] = { LC_INT8, LC_STR, LC_TRUE, LC_OBJ, LC_ARR };
    static vf_gen g;
    for (int root = VK_OBJ; root <= VK_ARR; root++) {
        memset(&g, 0, sizeof g);
        g.root_kind = root; g.max_tokens = N_DOC; g.classes = cls; g.nclasses = 5; g.names = vf_names_abL; g.nnames = 4; g.max_obj_depth = 0;   /* incl. a 128-byte name */
        g.cb = on_doc;
        vf_gen_run(&g);
    }
    /* sibling family: every pair (thorough: and triple) of small sibling subtrees, without mutants */
    memset(&g, 0, sizeof g);
    g.cb = on_doc_sib;
    vf_sibling_run(&g, vf_g.thorough ? 2 : 1);
}

static void replay_main(void)
{
    char *t = vf_replay_load(vf_g.replay);
    char *root = vf_replay_get(t, "root"), *md = vf_replay_get(t, "max_depth"), *hex = vf_replay_get(t, "input_hex"), *ops = vf_replay_get(t, "ops");
    if (!root || !md || !hex || !ops) vf_die("replay file lacks root/max_depth/input_hex/ops");
    static uint8_t bytes[300000];
    long n = vf_unhex(bytes, sizeof bytes, hex);
    if (n < 0) vf_die("bad input_hex");
    IN = bytes; INLEN = (size_t) n; INLABEL = "replay"; KIND = !strcmp(root, "object") ? VK_OBJ : VK_ARR; MD = atoi(md);
    uint8_t h[4096];
    int nh = 0;
    for (char *p = ops; *p;) { while (*p == ' ') p++; if (!*p) break; h[nh++] = (uint8_t) strtoul(p, &p, 10); }
    vf_g.wid = 0;
    vf_fatal_describe = fatal_describe;
    vf_install_fatal();
    bool V = fresh_verify();
    char out[64];
    run_history(h, nh, out, sizeof out);
    printf("replay: verify %s; traversal outcome: %s\n", V ? "accepts" : "rejects", out);
    bool viol = V ? (strncmp(out, "terminal-ok", 11) != 0 && strncmp(out, "open", 4) != 0) : !strncmp(out, "terminal-ok", 11);
    if (viol) { printf("VIOLATION property=%s replay=%s\n", vf_g.prop, vf_g.replay); exit(VF_EXIT_VIOLATION); }
    exit(VF_EXIT_OK);
}

int main(int argc, char **argv)
{
    vf_main_init(argc, argv, "stream", ctr_names);
    if (strcmp(vf_g.prop, "C08")) vf_die("stream decides C08");
    L_HOSTILE = vf_g.thorough ? 4 : 3; L_CORE = vf_g.thorough ? 6 : 5; N_DOC = vf_g.thorough ? 4 : 3;
    const char *e;
    if ((e = getenv("VERIF_L"))) L_HOSTILE = atoi(e);
    if ((e = getenv("VERIF_LCORE"))) L_CORE = atoi(e);
    if ((e = getenv("VERIF_N"))) N_DOC = atoi(e);
    if (vf_g.replay) replay_main();
    int deaths = vf_run_workers(worker);
    static char bound[2400];
    snprintf(bound, sizeof bound,
             "inputs: every framed sequence of <= %d tokens over the %d-token hostile alphabet (max_depth 1,2,3) and of <= %d tokens over the %d-token core "
             "alphabet (max_depth 2), object- and array-framed; every valid document with <= %d value tokens over names {a, b, a 128-byte name} and ALL its one-deviation mutants (interior bytes of the long name thinned out) under both init "
             "kinds; towers at and one past max_depth 1..3; 100..256 nested arrays; documents of <= 2 values over {int, 32768-byte string, 32768-byte bytes, containers} with their mutants. Per input: fixpoint over ALL adaptive strategies built from next, 4 lookups, enter on a reported "
             "container, get_raw on a reported container, leave of the innermost entered container, reset (restart) from anywhere",
             L_HOSTILE, VF_NTOK_HOSTILE, L_CORE, VF_NTOK_CORE, N_DOC);
    static const char *const assumptions[] = {
        "the application follows the protocol: it enters / extracts only a container the parser has just reported (or the root), leaves only what it entered, looks fields up only inside objects",
        "'every call successful' is read as: no enter, leave or get_raw call returns false; next / lookup returning false is an ordinary answer",
        "the verdict compared against is the library's own verify on a fresh parser (C02 ties verify to the specification)"
    };
    static const int must[] = { CT_VALID, CT_INVALID, CT_TERMINALS_OK, CT_FAILED_CALLS_INVALID, CT_LOOKUPS, CT_RAW, CT_EARLY_LEAVE, CT_INVALID_WITH_LONG_PATH, CT_MUT };
    vf_evidence_spec es;
    memset(&es, 0, sizeof es);
    es.c_states = CT_STATES; es.c_transitions = CT_TRANS; es.c_validated = CT_TRANS;
    snprintf(bound + strlen(bound), sizeof bound - strlen(bound), "%s", "; later additions: a complete root followed by 1..262144 junk bytes; names of 65537 (thorough: 65531, 65794) bytes; rich towers (an object with an array field and a scalar at "
             "every level of 7..254 nested arrays); every pair (thorough: and triple) of small sibling subtrees and the pairs one level further down");
    es.bound = bound;
    es.rule = "exhaustive input enumeration; per input breadth-first search over (parser byte image, application stack, last reported type) with exact-compare visited set; failed paths are not extended";
    es.assumptions = assumptions; es.nassumptions = 3;
    es.must_be_nonzero = must; es.n_must = 9;
    return vf_finish(&es, deaths);
}
